package c14

// Extras of wave 6.
//
// readonly-inputs: every NON-mutating slicez function, instantiated with byte elements, is called
// on slices whose backing memory is READ-ONLY (the bytes of string constants in the binary's
// rodata). Any write to an input — also a transient one that is undone before the function
// returns (sentinel tricks) — faults; with debug.SetPanicOnFault the fault is a recoverable
// panic. Sound on every tree: code that only reads never faults.
//
// parallel-objects: independent cases (each with its own arena / FlexSlice) run on separate
// goroutines at the same time; every output must equal the output of the same case run alone
// (package-level scratch buffers, pools or caches shared between objects would show).

import (
	"errors"
	"fmt"
	"runtime/debug"
	"slices"
	"sync"
	"unsafe"

	"github.com/welllog/golib/slicez"

	"verifharness/internal/core"
)

// string constants: their bytes live in read-only memory
const (
	roA = "abcabcxyzzyx-0123456789-abcabc"
	roB = "cba-xyz-000"
)

func roBytes(s string, lo, hi int) []byte {
	return unsafe.Slice(unsafe.StringData(s), len(s))[lo:hi:hi]
}

// guardFault runs f with faults turned into panics and reports the panic text ("" = none).
func guardFault(f func()) (msg string) {
	old := debug.SetPanicOnFault(true)
	defer debug.SetPanicOnFault(old)
	defer func() {
		if r := recover(); r != nil {
			msg = fmt.Sprint(r)
		}
	}()
	f()
	return ""
}

func extraReadOnly(ctx *core.Ctx) (int, string, []core.ExtraFailure) {
	r := ctx.Rand
	n := 400
	if ctx.Tier == "thorough" || ctx.Escalate > 1 {
		n = 4000
	}
	var fails []core.ExtraFailure
	evals := 0
	for it := 0; it < n && len(fails) == 0; it++ {
		lo := r.Range(0, len(roA)-1)
		hi := r.Range(lo, len(roA))
		lo2 := r.Range(0, len(roB)-1)
		hi2 := r.Range(lo2, len(roB))
		s1, s2 := roBytes(roA, lo, hi), roBytes(roB, lo2, hi2)
		v := roA[r.Intn(len(roA))]
		if r.Chance(30) {
			v = '#'
		}
		a, b := r.Range(-2, len(s1)+2), r.Range(-2, len(s1)+2)
		calls := []struct {
			name string
			f    func()
		}{
			{"Index", func() { _ = slicez.Index(s1, v) }},
			{"Contains", func() { _ = slicez.Contains(s1, v) }},
			{"IndexFunc", func() { _ = slicez.IndexFunc(s1, func(x byte) bool { return x == v }) }},
			{"ContainsFunc", func() { _ = slicez.ContainsFunc(s1, func(x byte) bool { return x == v }) }},
			{"Equal", func() { _ = slicez.Equal(s1, s2); _ = slicez.Equal(s1, s1) }},
			{"SubSlice", func() { _ = slicez.SubSlice(s1, a, b) }},
			{"Copy", func() { _ = slicez.Copy(s1, a, b) }},
			{"Chunk", func() { _ = slicez.Chunk(s1, a) }},
			{"ChunkProcess", func() {
				_ = slicez.ChunkProcess(s1, a, func(c []byte) error {
					if len(c) == b {
						return errors.New("stop")
					}
					return nil
				})
			}},
			{"Values", func() { _ = slicez.Values(func(x byte) int { return int(x) }, s1, s2) }},
			{"Diff(nil dst)", func() { _ = slicez.Diff(nil, s1, s2) }},
			{"Intersect(nil dst)", func() { _ = slicez.Intersect(nil, s1, s2) }},
			{"Unique(nil dst)", func() { _ = slicez.Unique(nil, s1) }},
			{"UniqueByKey(nil dst)", func() { _ = slicez.UniqueByKey(nil, s1, func(x byte) int { return int(x) % 3 }) }},
			{"Filter(nil dst)", func() { _ = slicez.Filter(nil, s1, func(x byte) bool { return x > 'b' }) }},
			{"DiffInPlaceFirst: s2 only read", func() {
				w := append([]byte(nil), s1...)
				_ = slicez.DiffInPlaceFirst(w, s2)
				_ = slicez.IntersectInPlaceFirst(w, s2)
			}},
		}
		for _, c := range calls {
			evals++
			if msg := guardFault(c.f); msg != "" {
				fails = append(fails, core.ExtraFailure{
					Failure: core.Failure{Key: "write-to-readonly-input", Desc: fmt.Sprintf("slicez.%s on byte slices backed by read-only memory (s1 = %q[%d:%d], s2 = %q[%d:%d], v = %q, args %d %d) faulted: %s — a function that only selects / compares / copies must not write to its input, not even transiently", c.name, roA, lo, hi, roB, lo2, hi2, v, a, b, msg)},
					Payload: map[string]any{"func": c.name, "s1": string(s1), "s2": string(s2), "v": string(v), "a": a, "b": b},
				})
				break
			}
		}
	}
	return evals, fmt.Sprintf("%d calls of the 16 non-mutating slicez entry points on byte slices backed by read-only memory (rodata of string constants), faults turned into panics", evals), fails
}

func extraParallel(ctx *core.Ctx) (int, string, []core.ExtraFailure) {
	r := ctx.Rand
	n := 64
	if ctx.Tier == "thorough" || ctx.Escalate > 1 {
		n = 512
	}
	cases := make([]core.Case, n)
	for i := range cases {
		if i%2 == 0 {
			cases[i] = genArena(r)
		} else {
			cases[i] = genFlex(r)
		}
	}
	alone := make([][]string, n)
	for i, c := range cases {
		alone[i] = impl(c)
	}
	rounds := 4
	evals := 0
	var fails []core.ExtraFailure
	for round := 0; round < rounds && len(fails) == 0; round++ {
		together := make([][]string, n)
		var wg sync.WaitGroup
		start := make(chan struct{})
		for i := range cases {
			wg.Add(1)
			go func(i int) {
				defer wg.Done()
				<-start
				together[i] = impl(cases[i])
			}(i)
		}
		close(start)
		wg.Wait()
		for i := range cases {
			evals++
			if !slices.Equal(alone[i], together[i]) {
				fails = append(fails, core.ExtraFailure{
					Failure: core.Failure{Key: "objects-not-independent", Desc: fmt.Sprintf("case %d gives different answers when %d other independent cases (own arenas / FlexSlices, one goroutine each) run at the same time", i, n-1)},
					Payload: map[string]any{"lines": cases[i].Lines, "alone": alone[i], "in_parallel": together[i]},
				})
				break
			}
		}
	}
	return evals, fmt.Sprintf("%d independent cases (arena + FlexSlice), %d rounds, one goroutine per case, each output equal to the case run alone", n, rounds), fails
}
