package c14

// Arena stream (`@ C14 arena v0 v1 …`): EVERY slice argument is a window
// arena[off : off+len : off+cap] of ONE persistent arena, in every relative layout (s2 a partial
// window of s1, dst overlapping s2 / s1, sources with spare capacity holding other values).
// After every call the whole arena is printed (stray writes, writes past len), the result is
// located by its data pointer (window of the arena — incl. the spare capacity of a source — or
// memory of its own), and a results ledger re-compares every earlier fresh result with a deep
// copy taken when it was returned.

import (
	"fmt"
	"math"
	"slices"
	"strconv"
	"strings"
	"unsafe"

	"github.com/welllog/golib/slicez"

	"verifharness/internal/core"
)

type win struct {
	off, l, c int
	isNil     bool
}

func parseWin(tok string, n int) (win, bool) {
	if tok == "nil" {
		return win{isNil: true}, true
	}
	p := strings.Split(tok, ":")
	if len(p) != 3 {
		return win{}, false
	}
	a, e1 := strconv.Atoi(p[0])
	b, e2 := strconv.Atoi(p[1])
	c, e3 := strconv.Atoi(p[2])
	if e1 != nil || e2 != nil || e3 != nil || a < 0 || b < 0 || b > c || a+c > n {
		return win{}, false
	}
	return win{off: a, l: b, c: c}, true
}

func (w win) String() string {
	if w.isNil {
		return "nil"
	}
	return fmt.Sprintf("%d:%d:%d", w.off, w.l, w.c)
}

func (w win) of(arena []int) []int {
	if w.isNil {
		return nil
	}
	return arena[w.off : w.off+w.l : w.off+w.c]
}

// locate describes a returned slice relative to the arena: `win off len [..]` when its data
// pointer lies inside the arena's allocation (this includes the spare capacity behind the len
// of any source window), `fresh [..]` otherwise; empty results are `nil` / `e`.
func locate[R, T any](r []R, shown string, arena []T) string {
	if len(r) == 0 {
		if r == nil {
			return "nil"
		}
		return "e"
	}
	p := uintptr(unsafe.Pointer(unsafe.SliceData(r)))
	base := uintptr(unsafe.Pointer(unsafe.SliceData(arena)))
	var z T
	sz := unsafe.Sizeof(z)
	if len(arena) > 0 && p >= base && p < base+uintptr(cap(arena))*sz {
		return fmt.Sprintf("win %d %d %s", (p-base)/sz, len(r), shown)
	}
	return "fresh " + shown
}

// codec: how the cells of an arena of element type T are written in the protocol (as ints).
type codec[T comparable] struct {
	dec func(int) T
	enc func(T) int
}

const nanCode, negZeroCode = 1000000, 1000001

func decF(c int) float64 {
	switch c {
	case nanCode:
		return math.NaN()
	case negZeroCode:
		return math.Copysign(0, -1)
	}
	return float64(c)
}

func encF(f float64) int {
	switch {
	case f != f:
		return nanCode
	case f == 0 && math.Signbit(f):
		return negZeroCode
	}
	return int(f)
}

// fs: a struct element type whose == is not reflexive either (it contains a float64)
type fs struct {
	F   float64
	Tag int
}

var (
	intCodec   = codec[int]{func(c int) int { return c }, func(v int) int { return v }}
	floatCodec = codec[float64]{decF, encF}
	fsCodec    = codec[fs]{func(c int) fs { return fs{decF(c), 0} }, func(v fs) int { return encF(v.F) }}
)

func (cd codec[T]) decAll(cs []int) []T {
	r := make([]T, len(cs))
	for i, c := range cs {
		r[i] = cd.dec(c)
	}
	return r
}

func (cd codec[T]) show(vs []T) string {
	cs := make([]int, len(vs))
	for i, v := range vs {
		cs[i] = cd.enc(v)
	}
	return showInts(cs)
}

func winOf[T any](w win, arena []T) []T {
	if w.isNil {
		return nil
	}
	return arena[w.off : w.off+w.l : w.off+w.c]
}

type ledgerEntry struct{ res, deep []int }

// implArena dispatches on the header: `arena` = []int; `arenaF` = the SAME case run with element
// type float64 and then with struct{F float64; Tag int} (both must answer alike).
func implArena(c core.Case) []string {
	hdr := core.Toks(c.Lines[0])
	if hdr[2] == "arenaF" {
		a := implArenaT(c, "arenaF", floatCodec)
		b := implArenaT(c, "arenaF", fsCodec)
		for i := range a {
			if i < len(b) && a[i] != b[i] {
				a[i] += " STRUCT-DIFFERS " + b[i]
			}
		}
		return a
	}
	return implArenaT(c, "arena", intCodec)
}

type ledgerEntryT[T any] struct{ res, deep []T }

func implArenaT[T comparable](c core.Case, hname string, cd codec[T]) []string {
	var arena []T
	var ledger []ledgerEntryT[T]
	var ledgerI []ledgerEntry
	showInts := func(vs []T) string { return cd.show(vs) }
	accFn := func(acc []int) func(T) bool {
		return func(v T) bool { return slices.Contains(acc, cd.enc(v)) }
	}
	checkLedger := func() string {
		for k, e := range ledger {
			for i := range e.res {
				if cd.enc(e.res[i]) != cd.enc(e.deep[i]) {
					return fmt.Sprintf(" LEDGER-CHANGED result#%d was %s is %s", k, cd.show(e.deep), cd.show(e.res))
				}
			}
		}
		for k, e := range ledgerI {
			if !slices.Equal(e.res, e.deep) {
				return fmt.Sprintf(" LEDGER-CHANGED values-result#%d", k)
			}
		}
		return ""
	}
	return core.RunOps(c,
		func(h []string) string {
			if len(h) < 2 || h[0] != hname {
				return "bad-op"
			}
			vs, ok := parseInts(h[1:])
			if !ok {
				return "bad-op"
			}
			arena = cd.decAll(vs)
			return "ok"
		},
		func(t []string) string {
			gs := groups(t)
			h := gs[0]
			if len(h) == 0 {
				return "bad-op"
			}
			n := len(arena)
			wins := func(toks []string, allowNilFirst bool) ([]win, bool) {
				ws := make([]win, len(toks))
				for i, tk := range toks {
					w, ok := parseWin(tk, n)
					if !ok || (w.isNil && !(allowNilFirst && i == 0)) {
						return nil, false
					}
					ws[i] = w
				}
				return ws, true
			}
			var acc []int
			if len(gs) == 2 {
				var ok bool
				if acc, ok = parseInts(gs[1]); !ok {
					return "bad-op"
				}
			} else if len(gs) != 1 {
				return "bad-op"
			}
			var r []T
			extra := ""
			switch h[0] {
			case "equal":
				ws, ok := wins(h[1:], false)
				if !ok || len(ws) != 2 || len(gs) != 1 {
					return "bad-op"
				}
				return strconv.FormatBool(slicez.Equal(winOf(ws[0], arena), winOf(ws[1], arena))) + " | " + showInts(arena) + checkLedger()
			case "index", "contains":
				if len(h) != 3 || len(gs) != 1 {
					return "bad-op"
				}
				vc, e1 := strconv.Atoi(h[1])
				ws, ok := wins(h[2:], false)
				if e1 != nil || !ok {
					return "bad-op"
				}
				var res string
				if h[0] == "index" {
					res = strconv.Itoa(slicez.Index(winOf(ws[0], arena), cd.dec(vc)))
				} else {
					res = strconv.FormatBool(slicez.Contains(winOf(ws[0], arena), cd.dec(vc)))
				}
				return res + " | " + showInts(arena) + checkLedger()
			case "diff", "intersect":
				ws, ok := wins(h[1:], true)
				if !ok || len(ws) != 3 || len(gs) != 1 {
					return "bad-op"
				}
				if h[0] == "diff" {
					r = slicez.Diff(winOf(ws[0], arena), winOf(ws[1], arena), winOf(ws[2], arena))
				} else {
					r = slicez.Intersect(winOf(ws[0], arena), winOf(ws[1], arena), winOf(ws[2], arena))
				}
			case "unique":
				ws, ok := wins(h[1:], true)
				if !ok || len(ws) != 2 || len(gs) != 1 {
					return "bad-op"
				}
				r = slicez.Unique(winOf(ws[0], arena), winOf(ws[1], arena))
			case "uniquekey", "uniquekeyip":
				if len(h) < 3 || len(gs) != 1 {
					return "bad-op"
				}
				k, err := strconv.Atoi(h[1])
				if err != nil || k == 0 {
					return "bad-op"
				}
				key := func(v T) int { return cd.enc(v) % k }
				if h[0] == "uniquekey" {
					ws, ok := wins(h[2:], true)
					if !ok || len(ws) != 2 {
						return "bad-op"
					}
					r = slicez.UniqueByKey(winOf(ws[0], arena), winOf(ws[1], arena), key)
				} else {
					ws, ok := wins(h[2:], false)
					if !ok || len(ws) != 1 {
						return "bad-op"
					}
					r = slicez.UniqueByKeyInPlace(winOf(ws[0], arena), key)
				}
			case "filter":
				ws, ok := wins(h[1:], true)
				if !ok || len(ws) != 2 || len(gs) != 2 {
					return "bad-op"
				}
				r = slicez.Filter(winOf(ws[0], arena), winOf(ws[1], arena), accFn(acc))
			case "diffip", "intersectip":
				ws, ok := wins(h[1:], false)
				if !ok || len(ws) != 2 || len(gs) != 1 {
					return "bad-op"
				}
				if h[0] == "diffip" {
					r = slicez.DiffInPlaceFirst(winOf(ws[0], arena), winOf(ws[1], arena))
				} else {
					r = slicez.IntersectInPlaceFirst(winOf(ws[0], arena), winOf(ws[1], arena))
				}
			case "uniqueip":
				ws, ok := wins(h[1:], false)
				if !ok || len(ws) != 1 || len(gs) != 1 {
					return "bad-op"
				}
				r = slicez.UniqueInPlace(winOf(ws[0], arena))
			case "filterip":
				ws, ok := wins(h[1:], false)
				if !ok || len(ws) != 1 || len(gs) != 2 {
					return "bad-op"
				}
				r = slicez.FilterInPlace(winOf(ws[0], arena), accFn(acc))
			case "values":
				if len(h) < 2 || len(gs) != 1 {
					return "bad-op"
				}
				k, e1 := strconv.Atoi(h[1])
				ws, ok := wins(h[2:], false)
				if e1 != nil || !ok {
					return "bad-op"
				}
				ss := make([][]T, len(ws))
				for i, w := range ws {
					ss[i] = winOf(w, arena)
				}
				ri := slicez.Values(func(v T) int { return cd.enc(v) * k }, ss...)
				loc := locate(ri, showIntsPlain(ri), arena)
				out := loc + " | " + showInts(arena) + checkLedger()
				ledgerI = append(ledgerI, ledgerEntry{ri, append([]int(nil), ri...)})
				return out
			case "copy", "subslice":
				if len(h) != 4 || len(gs) != 1 {
					return "bad-op"
				}
				a, e1 := strconv.Atoi(h[1])
				b, e2 := strconv.Atoi(h[2])
				ws, ok := wins(h[3:], false)
				if e1 != nil || e2 != nil || !ok {
					return "bad-op"
				}
				if h[0] == "copy" {
					r = slicez.Copy(winOf(ws[0], arena), a, b)
				} else {
					r = slicez.SubSlice(winOf(ws[0], arena), a, b)
				}
			case "remove":
				if len(h) != 3 || len(gs) != 1 {
					return "bad-op"
				}
				i, e1 := strconv.Atoi(h[1])
				ws, ok := wins(h[2:], false)
				if e1 != nil || !ok {
					return "bad-op"
				}
				var v T
				var okk bool
				r, v, okk = slicez.Remove(winOf(ws[0], arena), i)
				extra = fmt.Sprintf(" %d %v", cd.enc(v), okk)
			case "appendsrc": // the caller appends to a source slice afterwards
				ws, ok := wins(h[1:], false)
				if !ok || len(ws) != 1 || len(gs) != 2 {
					return "bad-op"
				}
				_ = append(winOf(ws[0], arena), cd.decAll(acc)...)
				out := "ok | " + showInts(arena)
				return out + checkLedger()
			default:
				return "bad-op"
			}
			loc := locate(r, showInts(r), arena)
			out := loc + extra + " | " + showInts(arena) + checkLedger()
			if strings.HasPrefix(loc, "fresh") {
				ledger = append(ledger, ledgerEntryT[T]{r, append([]T(nil), r...)})
			}
			return out
		})
}

// ---------------------------------------------------------------- generator

func genArena(r *core.Rand) core.Case {
	n := r.Range(6, 20)
	arena := make([]int, n)
	hi := 4
	if r.Chance(30) {
		hi = 2
	}
	float := r.Chance(35) // element type float64 / struct with a float: NaN and ±0 among the cells
	for i := range arena {
		switch {
		case float && r.Chance(22):
			arena[i] = nanCode
		case float && r.Chance(15):
			arena[i] = negZeroCode
		case r.Chance(75):
			arena[i] = r.Range(0, hi)
		default:
			arena[i] = 100 + i // canary-like cell: unique, shows where stray writes land
		}
	}
	hdr := "@ C14 arena"
	if float {
		hdr = "@ C14 arenaF"
	}
	for _, v := range arena {
		hdr += " " + strconv.Itoa(v)
	}
	lines := []string{hdr}
	emit := func(f string, a ...any) { lines = append(lines, fmt.Sprintf(f, a...)) }
	mk := func(off, l, spare int) win { // clamp into the arena
		if off < 0 {
			off = 0
		}
		if off > n {
			off = n
		}
		if l < 0 {
			l = 0
		}
		if off+l > n {
			l = n - off
		}
		if spare < 0 {
			spare = 0
		}
		if off+l+spare > n {
			spare = n - off - l
		}
		return win{off: off, l: l, c: l + spare}
	}
	spare := func() int { return []int{0, 0, 1, 2, 3, n}[r.Intn(6)] }
	srcWin := func() win {
		off := r.Range(0, n-1)
		return mk(off, r.Range(0, min(8, n-off)), spare())
	}
	// s2 relative to s1
	rel := func(s1 win) win {
		switch r.Pick(22, 10, 10, 8, 10, 10, 10, 10, 10) {
		case 0: // a partial window INSIDE s1
			if s1.l == 0 {
				return srcWin()
			}
			a := r.Range(0, s1.l-1)
			return mk(s1.off+a, r.Range(1, s1.l-a), spare())
		case 1: // the same window
			return mk(s1.off, s1.l, spare())
		case 2: // straddling the start of s1
			return mk(s1.off-r.Range(1, 3), r.Range(2, 5), spare())
		case 3: // straddling the end of s1
			return mk(s1.off+s1.l-r.Range(1, 2), r.Range(2, 5), spare())
		case 4: // adjacent behind s1 (= inside s1's spare capacity when it has some)
			return mk(s1.off+s1.l, r.Range(1, 4), spare())
		case 5: // disjoint before
			return mk(0, r.Range(0, s1.off), 0)
		case 6: // disjoint behind
			return mk(s1.off+s1.c, r.Range(0, 5), spare())
		case 7: // a superset window
			return mk(s1.off-r.Range(0, 2), s1.l+r.Range(1, 4), spare())
		}
		return srcWin()
	}
	dstWin := func(s1, s2 win) win {
		switch r.Pick(10, 22, 12, 14, 10, 10, 10, 12) {
		case 0:
			return win{isNil: true}
		case 1: // prefix of s1 (the documented in-place use), with or without s1's capacity
			return win{off: s1.off, l: r.Range(0, s1.l), c: []int{s1.l, s1.c}[r.Intn(2)]}
		case 2: // prefix of s2
			return win{off: s2.off, l: r.Range(0, s2.l), c: []int{s2.l, s2.c}[r.Intn(2)]}
		case 3: // a window overlapping s2 somewhere
			return mk(s2.off+r.Range(-2, max(0, s2.l-1)), r.Range(0, 3), r.Range(0, 6))
		case 4: // before s1, capacity running into s1
			return mk(s1.off-r.Range(1, 3), r.Range(0, 2), r.Range(1, 8))
		case 5: // behind s1 (disjoint)
			return mk(s1.off+s1.c, r.Range(0, 2), r.Range(0, 8))
		case 6: // small capacity: append must detach
			return mk(r.Range(0, n-1), 0, r.Range(0, 2))
		}
		return mk(r.Range(0, n-1), r.Range(0, 3), r.Range(0, n)) // anything, also layouts no comment allows
	}
	accList := func() string {
		k := r.Range(0, 3)
		ss := make([]string, k)
		for i := range ss {
			ss[i] = strconv.Itoa(r.Range(0, 4))
		}
		if k == 0 {
			return "9"
		}
		return strings.Join(ss, " ")
	}
	ops := r.Range(5, 12)
	for i := 0; i < ops; i++ {
		s1 := srcWin()
		s2 := rel(s1)
		cellVal := func() int { // a value to search for: mostly one that occurs (NaN, ±0 included)
			if r.Chance(80) {
				return arena[r.Intn(n)]
			}
			return []int{0, negZeroCode, nanCode, 3}[r.Intn(4)]
		}
		switch r.Pick(8, 8, 6, 5, 6, 14, 14, 5, 4, 5, 12, 4, 4, 5, 5, 9, 6) {
		case 0:
			emit("diff %s %s %s", dstWin(s1, s2), s1, s2)
		case 1:
			emit("intersect %s %s %s", dstWin(s1, s2), s1, s2)
		case 2:
			emit("unique %s %s", dstWin(s1, s2), s1)
		case 3:
			emit("uniquekey %d %s %s", r.Range(1, 3), dstWin(s1, s2), s1)
		case 4:
			emit("filter %s %s ; %s", dstWin(s1, s2), s1, accList())
		case 5:
			emit("diffip %s %s", s1, s2)
		case 6:
			emit("intersectip %s %s", s1, s2)
		case 7:
			emit("uniqueip %s", s1)
		case 8:
			emit("uniquekeyip %d %s", r.Range(1, 3), s1)
		case 9:
			emit("filterip %s ; %s", s1, accList())
		case 10: // Copy from a source with spare capacity; often twice, then the caller appends to the source
			a, b := r.Range(-1, s1.l+1), r.Range(-1, s1.l+1)
			if r.Chance(15) { // an argument at the edge of int (the source has spare capacity behind it)
				a, b = edgePair(r, s1.l)
			}
			emit("copy %d %d %s", a, b, s1)
			if r.Chance(50) {
				a, b = r.Range(-1, s1.l), r.Range(-1, s1.l+1)
				if r.Chance(15) {
					a, b = edgePair(r, s1.l)
				}
				emit("copy %d %d %s", a, b, s1)
			}
			if r.Chance(50) {
				emit("appendsrc %s ; %d %d", s1, 50+i, 60+i)
			}
		case 11:
			a, b := r.Range(-1, s1.l+1), r.Range(-1, s1.l+1)
			if r.Chance(15) {
				a, b = edgePair(r, s1.l)
			}
			emit("subslice %d %d %s", a, b, s1)
		case 12:
			a := r.Range(-1, s1.l)
			if r.Chance(15) {
				a = edgeInt(r, s1.l)
			}
			emit("remove %d %s", a, s1)
		case 14:
			emit("values %d %s %s", r.Range(1, 3), s1, s2)
			if r.Chance(40) {
				emit("appendsrc %s ; %d", s1, 80+i)
			}
		case 13:
			emit("appendsrc %s ; %d", s1, 70+i)
		case 15: // Equal: the SAME window twice, the same cells with another capacity, a copy elsewhere, any other window
			switch r.Pick(35, 20, 45) {
			case 0:
				emit("equal %s %s", s1, s1)
			case 1:
				emit("equal %s %s", s1, win{off: s1.off, l: s1.l, c: s1.l})
			default:
				emit("equal %s %s", s1, mk(s2.off, s1.l, 0))
			}
		case 16:
			if r.Bool() {
				emit("index %d %s", cellVal(), s1)
			} else {
				emit("contains %d %s", cellVal(), s1)
			}
		}
	}
	return core.Case{Lines: lines, Tag: "arena"}
}

// ---------------------------------------------------------------- independent oracle

type ares struct {
	kind    string // win | fresh | e | nil
	off     int
	content []int
}

func parseARes(s string) (ares, string, bool) { // result, rest (e.g. "7 true"), ok
	f := splitOut(strings.TrimSpace(s))
	if len(f) == 0 {
		return ares{}, "", false
	}
	switch f[0] {
	case "nil", "e":
		return ares{kind: f[0]}, strings.Join(f[1:], " "), true
	case "fresh":
		if len(f) < 2 {
			return ares{}, "", false
		}
		v, _, ok := parseShown(f[1])
		return ares{kind: "fresh", content: v}, strings.Join(f[2:], " "), ok
	case "win":
		if len(f) < 4 {
			return ares{}, "", false
		}
		off, e1 := strconv.Atoi(f[1])
		v, _, ok := parseShown(f[3])
		return ares{kind: "win", off: off, content: v}, strings.Join(f[4:], " "), ok && e1 == nil
	}
	return ares{}, "", false
}

func defClampSub(n, a, b int) (int, int) { // SubSlice: [lo,hi) or empty
	if a > n {
		return 0, 0
	}
	if a < 0 {
		a = 0
	}
	if b < 0 || b > n {
		b = n
	}
	if a >= b {
		return 0, 0
	}
	return a, b
}

func defClampCopy(n, a, l int) (int, int) { // Copy: [lo,hi) or empty
	if n == 0 || a >= n || l == 0 {
		return 0, 0
	}
	if a < 0 {
		a = 0
	}
	if l < 0 || l > n-a {
		l = n - a
	}
	return a, a + l
}

// eqCode: the element type's == on coded cells (fl = float64 / struct holding one: NaN equals
// nothing, -0 equals +0) — written from the Go spec, independent of the Lean model.
func eqCode(fl bool, a, b int) bool {
	if !fl {
		return a == b
	}
	if a == nanCode || b == nanCode {
		return false
	}
	if a == negZeroCode {
		a = 0
	}
	if b == negZeroCode {
		b = 0
	}
	return a == b
}

func anyEq(fl bool, m []int, v int) bool {
	for _, x := range m {
		if eqCode(fl, v, x) {
			return true
		}
	}
	return false
}

// defSelectE: the definitions with the element type's == (map semantics: a NaN key is never
// found and every NaN is a new key; Unique's keys are the elements, UniqueByKey's are ints)
func defSelectE(fl bool, op string, k int, s1, s2 []int) []int {
	var r, seen []int
	for _, v := range s1 {
		switch op {
		case "diff":
			if !anyEq(fl, s2, v) {
				r = append(r, v)
			}
		case "intersect":
			if anyEq(fl, s2, v) {
				r = append(r, v)
			}
		case "filter":
			if slices.Contains(s2, v) { // the harness predicate: membership of the CODE in acc
				r = append(r, v)
			}
		case "unique":
			if !anyEq(fl, seen, v) {
				seen = append(seen, v)
				r = append(r, v)
			}
		case "uniquekey":
			if !slices.Contains(seen, v%k) {
				seen = append(seen, v%k)
				r = append(r, v)
			}
		}
	}
	return r
}

func isPerm(a, b []int) bool { return slices.Equal(sortedCopy(a), sortedCopy(b)) }

// checkArena evaluates the definitions on the arena as it was before each call (taken from the
// header / the previous answer) — independent of the Lean model.
func checkArena(c core.Case, out []string) *core.Failure {
	fl := core.Toks(c.Lines[0])[2] == "arenaF"
	before, _ := parseInts(core.Toks(c.Lines[0])[3:])
	for i := 1; i < len(c.Lines); i++ {
		line, o := c.Lines[i], out[i]
		fail := func(key, want string) *core.Failure {
			return &core.Failure{Key: key, Desc: fmt.Sprintf("arena %s, call %d %q answered %q; by definition: %s", showInts(before), i, line, clip(o), want)}
		}
		if o == "bad-op" {
			continue
		}
		if o == "panic" || o == "dead" {
			return fail("panic", "no panic for any layout of the arguments")
		}
		if k := strings.Index(o, " STRUCT-DIFFERS"); k >= 0 {
			return fail("elem-type-dependent", "the same answer for float64 elements and for struct{F float64; Tag int} elements")
		}
		if k := strings.Index(o, " LEDGER-CHANGED"); k >= 0 {
			return fail("result-changed", "a slice returned by an earlier call keeps its content (fresh memory): "+o[k+1:])
		}
		resPart, arenaPart, ok := strings.Cut(o, " | ")
		if !ok {
			return fail("arena-format", "result | arena")
		}
		after, _, ok2 := parseShown(strings.TrimSpace(arenaPart))
		if !ok2 || len(after) != len(before) {
			return fail("arena-format", "the arena keeps its size")
		}
		gs := groups(core.Toks(line))
		h := gs[0]
		var acc []int
		if len(gs) == 2 {
			acc, _ = parseInts(gs[1])
		}
		n := len(before)
		w := func(tok string) win { x, _ := parseWin(tok, n); return x }
		unchangedOutside := func(lo, hi int) bool {
			for k := range before {
				if (k < lo || k >= hi) && before[k] != after[k] {
					return false
				}
			}
			return true
		}
		if h[0] == "appendsrc" {
			s := w(h[1])
			lo := s.off + s.l
			hi := lo
			if s.l+len(acc) <= s.c {
				hi = lo + len(acc)
			}
			if !unchangedOutside(lo, hi) {
				return fail("stray-write", "only the appended cells change")
			}
			before = after
			continue
		}
		if h[0] == "equal" || h[0] == "index" || h[0] == "contains" {
			var want string
			if h[0] == "equal" {
				a, b := w(h[1]).of(before), w(h[2]).of(before)
				eq := len(a) == len(b)
				for k := 0; eq && k < len(a); k++ {
					eq = eqCode(fl, a[k], b[k]) // element-wise ==, wherever the arguments live
				}
				want = strconv.FormatBool(eq)
			} else {
				v, _ := strconv.Atoi(h[1])
				idx := -1
				for k, x := range w(h[2]).of(before) {
					if eqCode(fl, v, x) {
						idx = k
						break
					}
				}
				want = strconv.Itoa(idx)
				if h[0] == "contains" {
					want = strconv.FormatBool(idx >= 0)
				}
			}
			if strings.TrimSpace(resPart) != want {
				return fail(h[0]+"-elem-eq", want+" (element-wise ==; NaN != NaN, -0 == +0)")
			}
			if !unchangedOutside(0, 0) {
				return fail("stray-write", "the arena is only read")
			}
			before = after
			continue
		}
		res, rest, ok3 := parseARes(resPart)
		if !ok3 {
			return fail("arena-format", "a result description")
		}
		switch h[0] {
		case "diff", "intersect", "unique", "uniquekey", "filter":
			op, k, j := h[0], 1, 1
			if op == "uniquekey" {
				k, _ = strconv.Atoi(h[1])
				j = 2
			}
			dst, s1 := w(h[j]), w(h[j+1])
			var s2c []int
			switch op {
			case "diff", "intersect":
				s2c = w(h[j+2]).of(before)
			case "filter":
				s2c = acc
			}
			want := defSelectE(fl, op, k, s1.of(before), s2c)
			// layouts in which the result is defined: dst nil, dst's capacity region disjoint from
			// the cells of s1, or dst starting at or before s1 (the write cursor never overtakes the
			// read cursor: "also when dst is the prefix s[:0] of an input")
			allowed := dst.isNil || dst.off+dst.c <= s1.off || dst.off >= s1.off+s1.l || dst.off <= s1.off
			if allowed && !slices.Equal(res.content, want) {
				return fail("select-result-arena", "result "+showInts(want))
			}
			if dst.isNil {
				if res.kind == "win" {
					return fail("result-not-fresh", "a nil dst gives a result in memory of its own")
				}
				if !unchangedOutside(0, 0) {
					return fail("stray-write", "nothing is written with a nil dst")
				}
			} else if !unchangedOutside(dst.off, dst.off+dst.c) {
				return fail("stray-write", "only cells inside dst's capacity are written")
			}
		case "diffip", "intersectip", "uniqueip", "uniquekeyip", "filterip":
			op, k, j := strings.TrimSuffix(h[0], "ip"), 1, 1
			if op == "uniquekey" {
				k, _ = strconv.Atoi(h[1])
				j = 2
			}
			s1 := w(h[j])
			var s2c []int
			switch op {
			case "diff", "intersect":
				s2c = w(h[j+1]).of(before) // ANY layout of s2 relative to s1
			case "filter":
				s2c = acc
			}
			want := defSelectE(fl, op, k, s1.of(before), s2c)
			if op == "diff" && (s1.l == 0 || len(s2c) == 0) {
				want = s1.of(before)
			}
			if !isPerm(res.content, want) {
				return fail("inplace-multiset-arena", "the multiset of "+showInts(want))
			}
			if res.kind == "win" && res.off != s1.off || res.kind == "fresh" {
				return fail("inplace-result-place", "the front portion of s1")
			}
			if !unchangedOutside(s1.off, s1.off+s1.l) {
				return fail("stray-write", "only the cells of s1 are permuted")
			}
			if !isPerm(after[s1.off:s1.off+s1.l], before[s1.off:s1.off+s1.l]) {
				return fail("inplace-perm-arena", "s1 stays a permutation of its original content")
			}
		case "copy", "subslice":
			a, _ := strconv.Atoi(h[1])
			b, _ := strconv.Atoi(h[2])
			s := w(h[3])
			sc := s.of(before)
			var lo, hi int
			if h[0] == "copy" {
				lo, hi = defClampCopy(len(sc), a, b)
			} else {
				lo, hi = defClampSub(len(sc), a, b)
			}
			if !slices.Equal(res.content, sc[lo:hi]) {
				return fail(h[0]+"-clamp-arena", showInts(sc[lo:hi]))
			}
			if h[0] == "copy" && res.kind == "win" {
				return fail("copy-not-fresh", fmt.Sprintf("fresh memory; the result lies in the source's arena at cell %d (source window %s)", res.off, s))
			}
			if !unchangedOutside(0, 0) {
				return fail("stray-write", "the arena (incl. spare capacity) is not written")
			}
		case "values":
			k, _ := strconv.Atoi(h[1])
			var want []int
			for _, tok := range h[2:] {
				for _, v := range w(tok).of(before) {
					want = append(want, v*k)
				}
			}
			if !slices.Equal(res.content, want) {
				return fail("values-arena", showInts(want))
			}
			if res.kind == "win" || res.kind == "nil" {
				return fail("values-not-fresh", "freshly made (non-nil) memory, not a window of an argument's array")
			}
			if !unchangedOutside(0, 0) {
				return fail("stray-write", "the arena is only read")
			}
		case "remove":
			idx, _ := strconv.Atoi(h[1])
			s := w(h[2])
			sc := s.of(before)
			if idx < 0 || idx >= len(sc) {
				if rest != "0 false" || !slices.Equal(res.content, sc) || !unchangedOutside(0, 0) {
					return fail("remove-arena", "(s, 0, false), nothing written")
				}
			} else {
				want := append(append([]int(nil), sc[:idx]...), sc[idx+1:]...)
				if rest != fmt.Sprintf("%d true", sc[idx]) || !slices.Equal(res.content, want) {
					return fail("remove-arena", fmt.Sprintf("%s %d true", showInts(want), sc[idx]))
				}
				if !unchangedOutside(s.off, s.off+s.l) {
					return fail("stray-write", "only the cells of s are shifted")
				}
			}
		}
		before = after
	}
	return nil
}

func classifyArena(c core.Case, out []string) []string {
	var ls []string
	if core.Toks(c.Lines[0])[2] == "arenaF" {
		ls = append(ls, "arena of float64 / struct{float} elements")
	}
	n := len(core.Toks(c.Lines[0])) - 3
	for i, l := range c.Lines[1:] {
		gs := groups(core.Toks(l))
		h := gs[0]
		o := out[i+1]
		if o == "bad-op" || len(h) == 0 {
			continue
		}
		w := func(tok string) win { x, _ := parseWin(tok, n); return x }
		relOf := func(a, b win) string { // how b lies relative to a
			switch {
			case b.l == 0:
				return "empty"
			case b.off == a.off && b.l == a.l:
				return "equal"
			case b.off >= a.off && b.off+b.l <= a.off+a.l:
				return "partial window inside"
			case b.off+b.l <= a.off || b.off >= a.off+a.l:
				return "disjoint"
			}
			return "straddling"
		}
		switch h[0] {
		case "diffip", "intersectip":
			ls = append(ls, "arena "+h[0]+": s2 "+relOf(w(h[1]), w(h[2]))+" s1")
		case "diff", "intersect":
			d, s1, s2 := w(h[1]), w(h[2]), w(h[3])
			if d.isNil {
				ls = append(ls, "arena "+h[0]+": dst nil")
			} else {
				dr := win{off: d.off, l: d.c}
				ls = append(ls, "arena "+h[0]+": dst region "+relOf(s2, dr)+" s2, "+relOf(s1, dr)+" s1")
			}
		case "equal":
			a, b := w(h[1]), w(h[2])
			lab := "arena equal: different windows"
			if a.off == b.off && a.l == b.l {
				lab = "arena equal: the SAME window twice"
			}
			ls = append(ls, lab+" -> "+strings.Fields(o)[0])
		case "copy":
			s := w(h[3])
			if s.c > s.l {
				ls = append(ls, "arena copy from a source with spare capacity")
			} else {
				ls = append(ls, "arena copy")
			}
		default:
			ls = append(ls, "arena "+h[0])
		}
		switch h[0] { // int-edge magnitudes of the integer arguments (wave 8 B)
		case "copy", "subslice", "remove":
			var args []int
			for _, t := range h[1 : len(h)-1] {
				if v, err := strconv.Atoi(t); err == nil {
					args = append(args, v)
				}
			}
			ls = append(ls, edgeLabel("arena "+h[0], w(h[len(h)-1]).l, args...)...)
		}
		if strings.HasPrefix(o, "fresh") {
			ls = append(ls, "arena result kept in the ledger")
		}
	}
	return ls
}
