package c14

// Arena stream (`@ C14 arena v0 v1 …`): EVERY slice argument is a window
// arena[off : off+len : off+cap] of ONE persistent arena, in every relative layout (s2 a partial
// window of s1, dst overlapping s2 / s1, sources with spare capacity holding other values).
// After every call the whole arena is printed (stray writes, writes past len), the result is
// located by its data pointer (window of the arena — incl. the spare capacity of a source — or
// memory of its own), and a results ledger re-compares every earlier fresh result with a deep
// copy taken when it was returned.

import (
	"fmt"
	"slices"
	"strconv"
	"strings"
	"unsafe"

	"github.com/welllog/golib/slicez"

	"verifharness/internal/core"
)

type win struct {
	off, l, c int
	isNil     bool
}

func parseWin(tok string, n int) (win, bool) {
	if tok == "nil" {
		return win{isNil: true}, true
	}
	p := strings.Split(tok, ":")
	if len(p) != 3 {
		return win{}, false
	}
	a, e1 := strconv.Atoi(p[0])
	b, e2 := strconv.Atoi(p[1])
	c, e3 := strconv.Atoi(p[2])
	if e1 != nil || e2 != nil || e3 != nil || a < 0 || b < 0 || b > c || a+c > n {
		return win{}, false
	}
	return win{off: a, l: b, c: c}, true
}

func (w win) String() string {
	if w.isNil {
		return "nil"
	}
	return fmt.Sprintf("%d:%d:%d", w.off, w.l, w.c)
}

func (w win) of(arena []int) []int {
	if w.isNil {
		return nil
	}
	return arena[w.off : w.off+w.l : w.off+w.c]
}

// locate describes a returned slice relative to the arena: `win off len [..]` when its data
// pointer lies inside the arena's allocation (this includes the spare capacity behind the len
// of any source window), `fresh [..]` otherwise; empty results are `nil` / `e`.
func locate(r, arena []int) string {
	if len(r) == 0 {
		if r == nil {
			return "nil"
		}
		return "e"
	}
	p := uintptr(unsafe.Pointer(unsafe.SliceData(r)))
	base := uintptr(unsafe.Pointer(unsafe.SliceData(arena)))
	sz := unsafe.Sizeof(int(0))
	if len(arena) > 0 && p >= base && p < base+uintptr(cap(arena))*sz {
		return fmt.Sprintf("win %d %d %s", (p-base)/sz, len(r), showInts(r))
	}
	return "fresh " + showInts(r)
}

type ledgerEntry struct{ res, deep []int }

func implArena(c core.Case) []string {
	var arena []int
	var ledger []ledgerEntry
	return core.RunOps(c,
		func(h []string) string {
			if len(h) < 2 || h[0] != "arena" {
				return "bad-op"
			}
			vs, ok := parseInts(h[1:])
			if !ok {
				return "bad-op"
			}
			arena = vs
			return "ok"
		},
		func(t []string) string {
			gs := groups(t)
			h := gs[0]
			if len(h) == 0 {
				return "bad-op"
			}
			n := len(arena)
			wins := func(toks []string, allowNilFirst bool) ([]win, bool) {
				ws := make([]win, len(toks))
				for i, tk := range toks {
					w, ok := parseWin(tk, n)
					if !ok || (w.isNil && !(allowNilFirst && i == 0)) {
						return nil, false
					}
					ws[i] = w
				}
				return ws, true
			}
			var acc []int
			if len(gs) == 2 {
				var ok bool
				if acc, ok = parseInts(gs[1]); !ok {
					return "bad-op"
				}
			} else if len(gs) != 1 {
				return "bad-op"
			}
			var r []int
			extra := ""
			switch h[0] {
			case "diff", "intersect":
				ws, ok := wins(h[1:], true)
				if !ok || len(ws) != 3 || len(gs) != 1 {
					return "bad-op"
				}
				if h[0] == "diff" {
					r = slicez.Diff(ws[0].of(arena), ws[1].of(arena), ws[2].of(arena))
				} else {
					r = slicez.Intersect(ws[0].of(arena), ws[1].of(arena), ws[2].of(arena))
				}
			case "unique":
				ws, ok := wins(h[1:], true)
				if !ok || len(ws) != 2 || len(gs) != 1 {
					return "bad-op"
				}
				r = slicez.Unique(ws[0].of(arena), ws[1].of(arena))
			case "uniquekey", "uniquekeyip":
				if len(h) < 3 || len(gs) != 1 {
					return "bad-op"
				}
				k, err := strconv.Atoi(h[1])
				if err != nil || k == 0 {
					return "bad-op"
				}
				key := func(v int) int { return v % k }
				if h[0] == "uniquekey" {
					ws, ok := wins(h[2:], true)
					if !ok || len(ws) != 2 {
						return "bad-op"
					}
					r = slicez.UniqueByKey(ws[0].of(arena), ws[1].of(arena), key)
				} else {
					ws, ok := wins(h[2:], false)
					if !ok || len(ws) != 1 {
						return "bad-op"
					}
					r = slicez.UniqueByKeyInPlace(ws[0].of(arena), key)
				}
			case "filter":
				ws, ok := wins(h[1:], true)
				if !ok || len(ws) != 2 || len(gs) != 2 {
					return "bad-op"
				}
				r = slicez.Filter(ws[0].of(arena), ws[1].of(arena), accFn(acc))
			case "diffip", "intersectip":
				ws, ok := wins(h[1:], false)
				if !ok || len(ws) != 2 || len(gs) != 1 {
					return "bad-op"
				}
				if h[0] == "diffip" {
					r = slicez.DiffInPlaceFirst(ws[0].of(arena), ws[1].of(arena))
				} else {
					r = slicez.IntersectInPlaceFirst(ws[0].of(arena), ws[1].of(arena))
				}
			case "uniqueip":
				ws, ok := wins(h[1:], false)
				if !ok || len(ws) != 1 || len(gs) != 1 {
					return "bad-op"
				}
				r = slicez.UniqueInPlace(ws[0].of(arena))
			case "filterip":
				ws, ok := wins(h[1:], false)
				if !ok || len(ws) != 1 || len(gs) != 2 {
					return "bad-op"
				}
				r = slicez.FilterInPlace(ws[0].of(arena), accFn(acc))
			case "values":
				if len(h) < 2 || len(gs) != 1 {
					return "bad-op"
				}
				k, e1 := strconv.Atoi(h[1])
				ws, ok := wins(h[2:], false)
				if e1 != nil || !ok {
					return "bad-op"
				}
				ss := make([][]int, len(ws))
				for i, w := range ws {
					ss[i] = w.of(arena)
				}
				r = slicez.Values(func(v int) int { return v * k }, ss...)
			case "copy", "subslice":
				if len(h) != 4 || len(gs) != 1 {
					return "bad-op"
				}
				a, e1 := strconv.Atoi(h[1])
				b, e2 := strconv.Atoi(h[2])
				ws, ok := wins(h[3:], false)
				if e1 != nil || e2 != nil || !ok {
					return "bad-op"
				}
				if h[0] == "copy" {
					r = slicez.Copy(ws[0].of(arena), a, b)
				} else {
					r = slicez.SubSlice(ws[0].of(arena), a, b)
				}
			case "remove":
				if len(h) != 3 || len(gs) != 1 {
					return "bad-op"
				}
				i, e1 := strconv.Atoi(h[1])
				ws, ok := wins(h[2:], false)
				if e1 != nil || !ok {
					return "bad-op"
				}
				var v int
				var okk bool
				r, v, okk = slicez.Remove(ws[0].of(arena), i)
				extra = fmt.Sprintf(" %d %v", v, okk)
			case "appendsrc": // the caller appends to a source slice afterwards
				ws, ok := wins(h[1:], false)
				if !ok || len(ws) != 1 || len(gs) != 2 {
					return "bad-op"
				}
				_ = append(ws[0].of(arena), acc...)
				out := "ok | " + showInts(arena)
				return out + checkLedger(ledger)
			default:
				return "bad-op"
			}
			loc := locate(r, arena)
			out := loc + extra + " | " + showInts(arena) + checkLedger(ledger)
			if strings.HasPrefix(loc, "fresh") {
				ledger = append(ledger, ledgerEntry{r, append([]int(nil), r...)})
			}
			return out
		})
}

// checkLedger: has any earlier fresh result changed since it was returned?
func checkLedger(ledger []ledgerEntry) string {
	for k, e := range ledger {
		if !slices.Equal(e.res, e.deep) {
			return fmt.Sprintf(" LEDGER-CHANGED result#%d was %s is %s", k, showInts(e.deep), showInts(e.res))
		}
	}
	return ""
}

// ---------------------------------------------------------------- generator

func genArena(r *core.Rand) core.Case {
	n := r.Range(6, 20)
	arena := make([]int, n)
	hi := 4
	if r.Chance(30) {
		hi = 2
	}
	for i := range arena {
		if r.Chance(75) {
			arena[i] = r.Range(0, hi)
		} else {
			arena[i] = 100 + i // canary-like cell: unique, shows where stray writes land
		}
	}
	hdr := "@ C14 arena"
	for _, v := range arena {
		hdr += " " + strconv.Itoa(v)
	}
	lines := []string{hdr}
	emit := func(f string, a ...any) { lines = append(lines, fmt.Sprintf(f, a...)) }
	mk := func(off, l, spare int) win { // clamp into the arena
		if off < 0 {
			off = 0
		}
		if off > n {
			off = n
		}
		if l < 0 {
			l = 0
		}
		if off+l > n {
			l = n - off
		}
		if spare < 0 {
			spare = 0
		}
		if off+l+spare > n {
			spare = n - off - l
		}
		return win{off: off, l: l, c: l + spare}
	}
	spare := func() int { return []int{0, 0, 1, 2, 3, n}[r.Intn(6)] }
	srcWin := func() win {
		off := r.Range(0, n-1)
		return mk(off, r.Range(0, min(8, n-off)), spare())
	}
	// s2 relative to s1
	rel := func(s1 win) win {
		switch r.Pick(22, 10, 10, 8, 10, 10, 10, 10, 10) {
		case 0: // a partial window INSIDE s1
			if s1.l == 0 {
				return srcWin()
			}
			a := r.Range(0, s1.l-1)
			return mk(s1.off+a, r.Range(1, s1.l-a), spare())
		case 1: // the same window
			return mk(s1.off, s1.l, spare())
		case 2: // straddling the start of s1
			return mk(s1.off-r.Range(1, 3), r.Range(2, 5), spare())
		case 3: // straddling the end of s1
			return mk(s1.off+s1.l-r.Range(1, 2), r.Range(2, 5), spare())
		case 4: // adjacent behind s1 (= inside s1's spare capacity when it has some)
			return mk(s1.off+s1.l, r.Range(1, 4), spare())
		case 5: // disjoint before
			return mk(0, r.Range(0, s1.off), 0)
		case 6: // disjoint behind
			return mk(s1.off+s1.c, r.Range(0, 5), spare())
		case 7: // a superset window
			return mk(s1.off-r.Range(0, 2), s1.l+r.Range(1, 4), spare())
		}
		return srcWin()
	}
	dstWin := func(s1, s2 win) win {
		switch r.Pick(10, 22, 12, 14, 10, 10, 10, 12) {
		case 0:
			return win{isNil: true}
		case 1: // prefix of s1 (the documented in-place use), with or without s1's capacity
			return win{off: s1.off, l: r.Range(0, s1.l), c: []int{s1.l, s1.c}[r.Intn(2)]}
		case 2: // prefix of s2
			return win{off: s2.off, l: r.Range(0, s2.l), c: []int{s2.l, s2.c}[r.Intn(2)]}
		case 3: // a window overlapping s2 somewhere
			return mk(s2.off+r.Range(-2, max(0, s2.l-1)), r.Range(0, 3), r.Range(0, 6))
		case 4: // before s1, capacity running into s1
			return mk(s1.off-r.Range(1, 3), r.Range(0, 2), r.Range(1, 8))
		case 5: // behind s1 (disjoint)
			return mk(s1.off+s1.c, r.Range(0, 2), r.Range(0, 8))
		case 6: // small capacity: append must detach
			return mk(r.Range(0, n-1), 0, r.Range(0, 2))
		}
		return mk(r.Range(0, n-1), r.Range(0, 3), r.Range(0, n)) // anything, also layouts no comment allows
	}
	accList := func() string {
		k := r.Range(0, 3)
		ss := make([]string, k)
		for i := range ss {
			ss[i] = strconv.Itoa(r.Range(0, 4))
		}
		if k == 0 {
			return "9"
		}
		return strings.Join(ss, " ")
	}
	ops := r.Range(5, 12)
	for i := 0; i < ops; i++ {
		s1 := srcWin()
		s2 := rel(s1)
		switch r.Pick(8, 8, 6, 5, 6, 14, 14, 5, 4, 5, 12, 4, 4, 5, 5, 0) {
		case 0:
			emit("diff %s %s %s", dstWin(s1, s2), s1, s2)
		case 1:
			emit("intersect %s %s %s", dstWin(s1, s2), s1, s2)
		case 2:
			emit("unique %s %s", dstWin(s1, s2), s1)
		case 3:
			emit("uniquekey %d %s %s", r.Range(1, 3), dstWin(s1, s2), s1)
		case 4:
			emit("filter %s %s ; %s", dstWin(s1, s2), s1, accList())
		case 5:
			emit("diffip %s %s", s1, s2)
		case 6:
			emit("intersectip %s %s", s1, s2)
		case 7:
			emit("uniqueip %s", s1)
		case 8:
			emit("uniquekeyip %d %s", r.Range(1, 3), s1)
		case 9:
			emit("filterip %s ; %s", s1, accList())
		case 10: // Copy from a source with spare capacity; often twice, then the caller appends to the source
			a, b := r.Range(-1, s1.l+1), r.Range(-1, s1.l+1)
			emit("copy %d %d %s", a, b, s1)
			if r.Chance(50) {
				emit("copy %d %d %s", r.Range(-1, s1.l), r.Range(-1, s1.l+1), s1)
			}
			if r.Chance(50) {
				emit("appendsrc %s ; %d %d", s1, 50+i, 60+i)
			}
		case 11:
			emit("subslice %d %d %s", r.Range(-1, s1.l+1), r.Range(-1, s1.l+1), s1)
		case 12:
			emit("remove %d %s", r.Range(-1, s1.l), s1)
		case 14:
			emit("values %d %s %s", r.Range(1, 3), s1, s2)
			if r.Chance(40) {
				emit("appendsrc %s ; %d", s1, 80+i)
			}
		case 13:
			emit("appendsrc %s ; %d", s1, 70+i)
		}
	}
	return core.Case{Lines: lines, Tag: "arena"}
}

// ---------------------------------------------------------------- independent oracle

type ares struct {
	kind    string // win | fresh | e | nil
	off     int
	content []int
}

func parseARes(s string) (ares, string, bool) { // result, rest (e.g. "7 true"), ok
	f := splitOut(strings.TrimSpace(s))
	if len(f) == 0 {
		return ares{}, "", false
	}
	switch f[0] {
	case "nil", "e":
		return ares{kind: f[0]}, strings.Join(f[1:], " "), true
	case "fresh":
		if len(f) < 2 {
			return ares{}, "", false
		}
		v, _, ok := parseShown(f[1])
		return ares{kind: "fresh", content: v}, strings.Join(f[2:], " "), ok
	case "win":
		if len(f) < 4 {
			return ares{}, "", false
		}
		off, e1 := strconv.Atoi(f[1])
		v, _, ok := parseShown(f[3])
		return ares{kind: "win", off: off, content: v}, strings.Join(f[4:], " "), ok && e1 == nil
	}
	return ares{}, "", false
}

func defClampSub(n, a, b int) (int, int) { // SubSlice: [lo,hi) or empty
	if a > n {
		return 0, 0
	}
	if a < 0 {
		a = 0
	}
	if b < 0 || b > n {
		b = n
	}
	if a >= b {
		return 0, 0
	}
	return a, b
}

func defClampCopy(n, a, l int) (int, int) { // Copy: [lo,hi) or empty
	if n == 0 || a >= n || l == 0 {
		return 0, 0
	}
	if a < 0 {
		a = 0
	}
	if l < 0 || l > n-a {
		l = n - a
	}
	return a, a + l
}

func isPerm(a, b []int) bool { return slices.Equal(sortedCopy(a), sortedCopy(b)) }

// checkArena evaluates the definitions on the arena as it was before each call (taken from the
// header / the previous answer) — independent of the Lean model.
func checkArena(c core.Case, out []string) *core.Failure {
	before, _ := parseInts(core.Toks(c.Lines[0])[3:])
	for i := 1; i < len(c.Lines); i++ {
		line, o := c.Lines[i], out[i]
		fail := func(key, want string) *core.Failure {
			return &core.Failure{Key: key, Desc: fmt.Sprintf("arena %s, call %d %q answered %q; by definition: %s", showInts(before), i, line, clip(o), want)}
		}
		if o == "bad-op" {
			continue
		}
		if o == "panic" || o == "dead" {
			return fail("panic", "no panic for any layout of the arguments")
		}
		if k := strings.Index(o, " LEDGER-CHANGED"); k >= 0 {
			return fail("result-changed", "a slice returned by an earlier call keeps its content (fresh memory): "+o[k+1:])
		}
		resPart, arenaPart, ok := strings.Cut(o, " | ")
		if !ok {
			return fail("arena-format", "result | arena")
		}
		after, _, ok2 := parseShown(strings.TrimSpace(arenaPart))
		if !ok2 || len(after) != len(before) {
			return fail("arena-format", "the arena keeps its size")
		}
		gs := groups(core.Toks(line))
		h := gs[0]
		var acc []int
		if len(gs) == 2 {
			acc, _ = parseInts(gs[1])
		}
		n := len(before)
		w := func(tok string) win { x, _ := parseWin(tok, n); return x }
		unchangedOutside := func(lo, hi int) bool {
			for k := range before {
				if (k < lo || k >= hi) && before[k] != after[k] {
					return false
				}
			}
			return true
		}
		if h[0] == "appendsrc" {
			s := w(h[1])
			lo := s.off + s.l
			hi := lo
			if s.l+len(acc) <= s.c {
				hi = lo + len(acc)
			}
			if !unchangedOutside(lo, hi) {
				return fail("stray-write", "only the appended cells change")
			}
			before = after
			continue
		}
		res, rest, ok3 := parseARes(resPart)
		if !ok3 {
			return fail("arena-format", "a result description")
		}
		switch h[0] {
		case "diff", "intersect", "unique", "uniquekey", "filter":
			op, k, j := h[0], 1, 1
			if op == "uniquekey" {
				k, _ = strconv.Atoi(h[1])
				j = 2
			}
			dst, s1 := w(h[j]), w(h[j+1])
			var s2c []int
			switch op {
			case "diff", "intersect":
				s2c = w(h[j+2]).of(before)
			case "filter":
				s2c = acc
			}
			want := defSelect(op, k, s1.of(before), s2c)
			// layouts in which the result is defined: dst nil, dst's capacity region disjoint from
			// the cells of s1, or dst starting at or before s1 (the write cursor never overtakes the
			// read cursor: "also when dst is the prefix s[:0] of an input")
			allowed := dst.isNil || dst.off+dst.c <= s1.off || dst.off >= s1.off+s1.l || dst.off <= s1.off
			if allowed && !slices.Equal(res.content, want) {
				return fail("select-result-arena", "result "+showInts(want))
			}
			if dst.isNil {
				if res.kind == "win" {
					return fail("result-not-fresh", "a nil dst gives a result in memory of its own")
				}
				if !unchangedOutside(0, 0) {
					return fail("stray-write", "nothing is written with a nil dst")
				}
			} else if !unchangedOutside(dst.off, dst.off+dst.c) {
				return fail("stray-write", "only cells inside dst's capacity are written")
			}
		case "diffip", "intersectip", "uniqueip", "uniquekeyip", "filterip":
			op, k, j := strings.TrimSuffix(h[0], "ip"), 1, 1
			if op == "uniquekey" {
				k, _ = strconv.Atoi(h[1])
				j = 2
			}
			s1 := w(h[j])
			var s2c []int
			switch op {
			case "diff", "intersect":
				s2c = w(h[j+1]).of(before) // ANY layout of s2 relative to s1
			case "filter":
				s2c = acc
			}
			want := defSelect(op, k, s1.of(before), s2c)
			if op == "diff" && (s1.l == 0 || len(s2c) == 0) {
				want = s1.of(before)
			}
			if !isPerm(res.content, want) {
				return fail("inplace-multiset-arena", "the multiset of "+showInts(want))
			}
			if res.kind == "win" && res.off != s1.off || res.kind == "fresh" {
				return fail("inplace-result-place", "the front portion of s1")
			}
			if !unchangedOutside(s1.off, s1.off+s1.l) {
				return fail("stray-write", "only the cells of s1 are permuted")
			}
			if !isPerm(after[s1.off:s1.off+s1.l], before[s1.off:s1.off+s1.l]) {
				return fail("inplace-perm-arena", "s1 stays a permutation of its original content")
			}
		case "copy", "subslice":
			a, _ := strconv.Atoi(h[1])
			b, _ := strconv.Atoi(h[2])
			s := w(h[3])
			sc := s.of(before)
			var lo, hi int
			if h[0] == "copy" {
				lo, hi = defClampCopy(len(sc), a, b)
			} else {
				lo, hi = defClampSub(len(sc), a, b)
			}
			if !slices.Equal(res.content, sc[lo:hi]) {
				return fail(h[0]+"-clamp-arena", showInts(sc[lo:hi]))
			}
			if h[0] == "copy" && res.kind == "win" {
				return fail("copy-not-fresh", fmt.Sprintf("fresh memory; the result lies in the source's arena at cell %d (source window %s)", res.off, s))
			}
			if !unchangedOutside(0, 0) {
				return fail("stray-write", "the arena (incl. spare capacity) is not written")
			}
		case "values":
			k, _ := strconv.Atoi(h[1])
			var want []int
			for _, tok := range h[2:] {
				for _, v := range w(tok).of(before) {
					want = append(want, v*k)
				}
			}
			if !slices.Equal(res.content, want) {
				return fail("values-arena", showInts(want))
			}
			if res.kind == "win" || res.kind == "nil" {
				return fail("values-not-fresh", "freshly made (non-nil) memory, not a window of an argument's array")
			}
			if !unchangedOutside(0, 0) {
				return fail("stray-write", "the arena is only read")
			}
		case "remove":
			idx, _ := strconv.Atoi(h[1])
			s := w(h[2])
			sc := s.of(before)
			if idx < 0 || idx >= len(sc) {
				if rest != "0 false" || !slices.Equal(res.content, sc) || !unchangedOutside(0, 0) {
					return fail("remove-arena", "(s, 0, false), nothing written")
				}
			} else {
				want := append(append([]int(nil), sc[:idx]...), sc[idx+1:]...)
				if rest != fmt.Sprintf("%d true", sc[idx]) || !slices.Equal(res.content, want) {
					return fail("remove-arena", fmt.Sprintf("%s %d true", showInts(want), sc[idx]))
				}
				if !unchangedOutside(s.off, s.off+s.l) {
					return fail("stray-write", "only the cells of s are shifted")
				}
			}
		}
		before = after
	}
	return nil
}

func classifyArena(c core.Case, out []string) []string {
	var ls []string
	n := len(core.Toks(c.Lines[0])) - 3
	for i, l := range c.Lines[1:] {
		gs := groups(core.Toks(l))
		h := gs[0]
		o := out[i+1]
		if o == "bad-op" || len(h) == 0 {
			continue
		}
		w := func(tok string) win { x, _ := parseWin(tok, n); return x }
		relOf := func(a, b win) string { // how b lies relative to a
			switch {
			case b.l == 0:
				return "empty"
			case b.off == a.off && b.l == a.l:
				return "equal"
			case b.off >= a.off && b.off+b.l <= a.off+a.l:
				return "partial window inside"
			case b.off+b.l <= a.off || b.off >= a.off+a.l:
				return "disjoint"
			}
			return "straddling"
		}
		switch h[0] {
		case "diffip", "intersectip":
			ls = append(ls, "arena "+h[0]+": s2 "+relOf(w(h[1]), w(h[2]))+" s1")
		case "diff", "intersect":
			d, s1, s2 := w(h[1]), w(h[2]), w(h[3])
			if d.isNil {
				ls = append(ls, "arena "+h[0]+": dst nil")
			} else {
				dr := win{off: d.off, l: d.c}
				ls = append(ls, "arena "+h[0]+": dst region "+relOf(s2, dr)+" s2, "+relOf(s1, dr)+" s1")
			}
		case "copy":
			s := w(h[3])
			if s.c > s.l {
				ls = append(ls, "arena copy from a source with spare capacity")
			} else {
				ls = append(ls, "arena copy")
			}
		default:
			ls = append(ls, "arena "+h[0])
		}
		if strings.HasPrefix(o, "fresh") {
			ls = append(ls, "arena result kept in the ledger")
		}
	}
	return ls
}
