// Package all links every property package into vcheck.
package all

import (
	_ "verifharness/props/c10"
)
