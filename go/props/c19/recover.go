package c19

// goz.Recover used directly (it is exported): every combination of
//   fn        ∈ { returns, panics with an int / nil / an error / a struct value / a typed
//                nil pointer, map, slice, func, chan / a run-time error / … (specialVals) }
//   handler   ∈ { set, nil (the fallback print path) }
//   cleanups  = 0..4 functions, each returning or panicking with an int
// is run in-process. Three answers are compared per combination:
//   * what really happened (handler calls in order, which cleanups ran, whether a panic
//     escaped from Recover);
//   * an independent oracle written from the property text (the handler gets the panic
//     value of fn first; cleanups run in order; the first panicking cleanup is reported to
//     the handler as "cleanup panic: <v>, index: <i>" and ends the loop; nothing escapes);
//   * the Lean function `recoverRun` (`@ C19 rec`), about which `c19_recover` is proved.
// Nothing here depends on timing or scheduling.

import (
	"fmt"
	"os"
	"strconv"
	"strings"

	"github.com/welllog/golib/goz"

	"verifharness/internal/core"
)

type recCase struct {
	fn       string   // "ok" | "p:<token>"
	cleanups []string // "ok" | "p:<int>"
	handler  bool
}

func (c recCase) line() string {
	return strings.TrimSpace("rec " + c.fn + " " + strings.Join(c.cleanups, " "))
}

type recObs struct {
	handled []string
	ran     []int
	escaped string // "" or the rendering of a panic that escaped from Recover
}

func (o recObs) String() string {
	rs := make([]string, len(o.ran))
	for i, r := range o.ran {
		rs[i] = strconv.Itoa(r)
	}
	s := "handled=[" + strings.Join(o.handled, " ") + "] ran=[" + strings.Join(rs, " ") + "]"
	if o.escaped != "" {
		s += " ESCAPED:" + o.escaped
	}
	return s
}

// cleanup-panic strings: "cleanup panic: <v>, index: <i>"
func cleanupTok(s string) string {
	var v, i int
	if n, _ := fmt.Sscanf(s, "cleanup panic: %d, index: %d", &v, &i); n == 2 {
		return fmt.Sprintf("c:%d@%d", v, i)
	}
	return "c:?" + strings.ReplaceAll(s, " ", "_")
}

func runRecover(c recCase) (obs recObs) {
	var handler func(any)
	if c.handler {
		handler = func(v any) {
			if s, ok := v.(string); ok && strings.HasPrefix(s, "cleanup panic") {
				obs.handled = append(obs.handled, cleanupTok(s))
				return
			}
			obs.handled = append(obs.handled, "v:"+tokOf(v))
		}
	}
	fn := func() {
		if c.fn != "ok" {
			doPanic(strings.TrimPrefix(c.fn, "p:"))
		}
	}
	var cl []func()
	for i, k := range c.cleanups {
		i, k := i, k
		cl = append(cl, func() {
			obs.ran = append(obs.ran, i)
			if k != "ok" {
				n, _ := strconv.Atoi(strings.TrimPrefix(k, "p:"))
				panic(n)
			}
		})
	}
	defer func() {
		if p := recover(); p != nil {
			obs.escaped = fmt.Sprint(p)
		}
	}()
	goz.Recover(fn, handler, cl...)
	return obs
}

// the property's own reading of Recover (independent of the Lean model)
func recOracle(c recCase) recObs {
	var o recObs
	if c.fn != "ok" && c.handler {
		o.handled = append(o.handled, "v:"+strings.TrimPrefix(c.fn, "p:"))
	}
	for i, k := range c.cleanups {
		o.ran = append(o.ran, i)
		if k != "ok" {
			if c.handler {
				o.handled = append(o.handled, fmt.Sprintf("c:%s@%d", strings.TrimPrefix(k, "p:"), i))
			}
			break
		}
	}
	return o
}

func recoverCases() []recCase {
	fns := []string{"ok", "p:7", "p:0", "p:err:3", "p:cus:5"}
	for _, sv := range specialVals {
		fns = append(fns, "p:"+sv)
	}
	var cls [][]string
	var rec func(cur []string, depth int)
	rec = func(cur []string, depth int) {
		cls = append(cls, append([]string{}, cur...))
		if depth == 4 {
			return
		}
		for _, k := range []string{"ok", "p:" + strconv.Itoa(10+depth)} {
			rec(append(cur, k), depth+1)
		}
	}
	rec(nil, 0)
	var out []recCase
	for _, f := range fns {
		for _, cl := range cls {
			for _, h := range []bool{true, false} {
				out = append(out, recCase{fn: f, cleanups: cl, handler: h})
			}
		}
	}
	return out
}

func recoverExtra(ctx *core.Ctx) (int, string, []core.ExtraFailure) {
	cases := recoverCases()
	var fails []core.ExtraFailure
	// the nil-handler path prints to stdout: keep the check's output readable
	devnull, _ := os.OpenFile(os.DevNull, os.O_WRONLY, 0)
	var withHandler []recCase
	for _, c := range cases {
		if !c.handler && devnull != nil {
			saved := os.Stdout
			os.Stdout = devnull
			obs := runRecover(c)
			os.Stdout = saved
			c, obs := c, obs
			if want := recOracle(c); obs.String() != want.String() && len(fails) == 0 {
				fails = append(fails, recFailure("recover-direct", c, obs.String(), want.String(), "the property's reading of Recover"))
			}
			continue
		}
		withHandler = append(withHandler, c)
	}
	if devnull != nil {
		devnull.Close()
	}
	lines := []string{"@ C19 rec"}
	var got []string
	for _, c := range withHandler {
		obs := runRecover(c)
		got = append(got, obs.String())
		lines = append(lines, c.line())
		if want := recOracle(c); obs.String() != want.String() && len(fails) == 0 {
			fails = append(fails, recFailure("recover-direct", c, obs.String(), want.String(), "the property's reading of Recover"))
		}
	}
	model, err := core.RunOracle(ctx.VerifDir, []core.Case{{Lines: lines, Tag: "rec"}})
	if err != nil || len(model) != 1 || len(model[0]) != len(lines) {
		return len(cases), "oracle failed", append(fails, core.ExtraFailure{
			Failure: core.Failure{Key: "recover-oracle", Desc: fmt.Sprintf("the Lean driver for `@ C19 rec` could not be run: %v", err)}, NoInput: true})
	}
	for i, c := range withHandler {
		if model[0][i+1] != got[i] && len(fails) == 0 {
			fails = append(fails, recFailure("recover-model", c, got[i], model[0][i+1], "the Lean model recoverRun (c19_recover)"))
		}
	}
	return len(cases), fmt.Sprintf("Recover called directly: %d combinations (fn outcome × handler set/nil × 0..4 cleanups returning/panicking), %d diffed against the Lean model", len(cases), len(withHandler)), fails
}

func recFailure(key string, c recCase, got, want, who string) core.ExtraFailure {
	return core.ExtraFailure{
		Failure: core.Failure{Key: key, Desc: fmt.Sprintf("goz.Recover(fn=%s, handler set=%v, cleanups=%v): observed %s, %s says %s", c.fn, c.handler, c.cleanups, got, who, want)},
		Payload: map[string]any{"fn": c.fn, "handler_set": c.handler, "cleanups": c.cleanups, "observed": got, "expected": want}}
}
