package c19

// goz.Recover used directly (it is exported): every combination of
//   fn        ∈ { returns, panics with an int / nil / an error / a struct value / a typed
//                nil pointer, map, slice, func, chan / a run-time error / … (specialVals),
//                panic(nil) under GODEBUG=panicnil=1 (`pnil1`), runtime.Goexit (`goexit`) }
//   handler   ∈ { set, nil (the fallback print path) }
//   cleanups  = 0..4 functions, each returning or panicking with an int, plus lists in which
//               one cleanup ends with `pnil1` or `goexit`
// is run in-process, each in a goroutine of its own (Goexit ends the goroutine: whether
// Recover came back to its caller is part of the observation). Three answers are compared per combination:
//   * what really happened (handler calls in order, which cleanups ran, whether a panic
//     escaped from Recover);
//   * an independent oracle written from the property text (the handler gets the panic
//     value of fn first; cleanups run in order; the first panicking cleanup is reported to
//     the handler as "cleanup panic: <v>, index: <i>" and ends the loop; nothing escapes);
//   * the Lean function `recoverRun` (`@ C19 rec`), about which `c19_recover` is proved.
// Nothing here depends on timing or scheduling.

import (
	"fmt"
	"os"
	"runtime"
	"strconv"
	"strings"

	"github.com/welllog/golib/goz"

	"verifharness/internal/core"
)

type recCase struct {
	fn       string   // "ok" | "p:<token>"
	cleanups []string // "ok" | "p:<int>"
	handler  bool
}

func (c recCase) line() string {
	return strings.TrimSpace("rec " + c.fn + " " + strings.Join(c.cleanups, " "))
}

type recObs struct {
	handled  []string
	ran      []int
	escaped  string // "" or the rendering of a panic that escaped from Recover
	noReturn bool   // Recover did not come back to its caller (the goroutine was ended by Goexit)
}

func (o recObs) String() string {
	rs := make([]string, len(o.ran))
	for i, r := range o.ran {
		rs[i] = strconv.Itoa(r)
	}
	s := "handled=[" + strings.Join(o.handled, " ") + "] ran=[" + strings.Join(rs, " ") + "]"
	if o.noReturn {
		s += " goexit"
	}
	if o.escaped != "" {
		s += " ESCAPED:" + o.escaped
	}
	return s
}

// cleanup-panic strings: "cleanup panic: <v>, index: <i>"
func cleanupTok(s string) string {
	var v, i int
	if n, _ := fmt.Sscanf(s, "cleanup panic: %d, index: %d", &v, &i); n == 2 {
		return fmt.Sprintf("c:%d@%d", v, i)
	}
	return "c:?" + strings.ReplaceAll(s, " ", "_")
}

func runRecover(c recCase) (obs recObs) {
	var handler func(any)
	if c.handler {
		handler = func(v any) {
			if s, ok := v.(string); ok && strings.HasPrefix(s, "cleanup panic") {
				obs.handled = append(obs.handled, cleanupTok(s))
				return
			}
			obs.handled = append(obs.handled, "v:"+tokOf(v))
		}
	}
	end := func(k string) {
		switch {
		case k == "ok":
		case k == "pnil1":
			panicNil(true)
		case k == "goexit":
			runtime.Goexit()
		default:
			doPanic(strings.TrimPrefix(k, "p:"))
		}
	}
	fn := func() { end(c.fn) }
	var cl []func()
	for i, k := range c.cleanups {
		i, k := i, k
		cl = append(cl, func() {
			obs.ran = append(obs.ran, i)
			end(k)
		})
	}
	done := make(chan struct{})
	go func() {
		defer close(done)
		defer func() {
			if p := recover(); p != nil {
				obs.escaped = fmt.Sprint(p)
			}
		}()
		obs.noReturn = true
		goz.Recover(fn, handler, cl...)
		obs.noReturn = false
	}()
	<-done
	return obs
}

// the property's own reading of Recover (independent of the Lean model)
// (panic(nil) under panicnil=1 and Goexit are invisible to recover(): nothing is reported for
// them; Goexit — in fn or in a cleanup — ends the goroutine after the deferred work.)
func recOracle(c recCase) recObs {
	var o recObs
	if strings.HasPrefix(c.fn, "p:") && c.handler {
		o.handled = append(o.handled, "v:"+strings.TrimPrefix(c.fn, "p:"))
	}
	o.noReturn = c.fn == "goexit"
	for i, k := range c.cleanups {
		o.ran = append(o.ran, i)
		if k == "ok" {
			continue
		}
		if strings.HasPrefix(k, "p:") && c.handler {
			o.handled = append(o.handled, fmt.Sprintf("c:%s@%d", strings.TrimPrefix(k, "p:"), i))
		}
		if k == "goexit" {
			o.noReturn = true
		}
		break
	}
	return o
}

func recoverCases() []recCase {
	fns := []string{"ok", "p:7", "p:0", "p:err:3", "p:cus:5"}
	for _, sv := range specialVals {
		fns = append(fns, "p:"+sv)
	}
	fns = append(fns, "pnil1", "goexit")
	var cls [][]string
	var rec func(cur []string, depth int)
	rec = func(cur []string, depth int) {
		cls = append(cls, append([]string{}, cur...))
		if depth == 4 {
			return
		}
		for _, k := range []string{"ok", "p:" + strconv.Itoa(10+depth)} {
			rec(append(cur, k), depth+1)
		}
	}
	rec(nil, 0)
	// a cleanup that ends silently: panic(nil) under panicnil=1, or Goexit
	for _, k := range []string{"pnil1", "goexit"} {
		cls = append(cls, []string{k}, []string{"ok", k, "ok"}, []string{k, "p:11"}, []string{"ok", "ok", k}, []string{"p:10", k})
	}
	var out []recCase
	for _, f := range fns {
		for _, cl := range cls {
			for _, h := range []bool{true, false} {
				out = append(out, recCase{fn: f, cleanups: cl, handler: h})
			}
		}
	}
	return out
}

func recoverExtra(ctx *core.Ctx) (int, string, []core.ExtraFailure) {
	cases := recoverCases()
	var fails []core.ExtraFailure
	// the nil-handler path prints to stdout: keep the check's output readable
	devnull, _ := os.OpenFile(os.DevNull, os.O_WRONLY, 0)
	var withHandler []recCase
	for _, c := range cases {
		if !c.handler && devnull != nil {
			saved := os.Stdout
			os.Stdout = devnull
			obs := runRecover(c)
			os.Stdout = saved
			c, obs := c, obs
			if want := recOracle(c); tolerant(c, obs.String()) != want.String() && len(fails) == 0 {
				fails = append(fails, recFailure("recover-direct", c, obs.String(), want.String(), "the property's reading of Recover"))
			}
			continue
		}
		withHandler = append(withHandler, c)
	}
	if devnull != nil {
		devnull.Close()
	}
	lines := []string{"@ C19 rec"}
	var got []string
	for _, c := range withHandler {
		obs := runRecover(c)
		got = append(got, obs.String())
		lines = append(lines, c.line())
		if want := recOracle(c); tolerant(c, obs.String()) != want.String() && len(fails) == 0 {
			fails = append(fails, recFailure("recover-direct", c, obs.String(), want.String(), "the property's reading of Recover"))
		}
	}
	model, err := core.RunOracle(ctx.VerifDir, []core.Case{{Lines: lines, Tag: "rec"}})
	if err != nil || len(model) != 1 || len(model[0]) != len(lines) {
		return len(cases), "oracle failed", append(fails, core.ExtraFailure{
			Failure: core.Failure{Key: "recover-oracle", Desc: fmt.Sprintf("the Lean driver for `@ C19 rec` could not be run: %v", err)}, NoInput: true})
	}
	for i, c := range withHandler {
		if model[0][i+1] != got[i] && len(fails) == 0 {
			fails = append(fails, recFailure("recover-model", c, got[i], model[0][i+1], "the Lean model recoverRun (c19_recover)"))
		}
	}
	return len(cases), fmt.Sprintf("Recover called directly: %d combinations (fn ending — return, panic with 14 kinds of values, panic(nil) under GODEBUG=panicnil=1, runtime.Goexit — × handler set/nil × 0..4 cleanups returning/panicking, plus cleanups ending with panic(nil) under panicnil=1 / Goexit), %d diffed against the Lean model", len(cases), len(withHandler)), fails
}

// tolerant: for fn = panic(nil) under panicnil=1 there is no value to deliver; the code as it
// is does not call the handler, a call with the nil interface is tolerated by the property's
// reading (the comparison with the Lean model still shows it).
func tolerant(c recCase, got string) string {
	if c.fn == "pnil1" {
		got = strings.Replace(got, "handled=[v:other:untyped-nil ", "handled=[", 1)
		got = strings.Replace(got, "handled=[v:other:untyped-nil]", "handled=[]", 1)
	}
	return got
}

func recFailure(key string, c recCase, got, want, who string) core.ExtraFailure {
	return core.ExtraFailure{
		Failure: core.Failure{Key: key, Desc: fmt.Sprintf("goz.Recover(fn=%s, handler set=%v, cleanups=%v): observed %s, %s says %s", c.fn, c.handler, c.cleanups, got, who, want)},
		Payload: map[string]any{"fn": c.fn, "handler_set": c.handler, "cleanups": c.cleanups, "observed": got, "expected": want}}
}
