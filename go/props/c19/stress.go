package c19

// Free-running stress on the real Limiter (no script, real scheduler): many short
// tasks, a fraction of them panicking, counters inside the functions. Every reported
// failure is a sound witness:
//   - the in-function counter exceeded the limit (the counted section lies inside fn);
//   - Wait() returned while fewer functions had finished than were submitted
//     (every function increments `finished` before it leaves);
//   - a function ran twice / not at all after Wait();
//   - the handler received something that is not the panic value of a task
//     (e.g. the "cleanup panic: sync: negative WaitGroup counter" string).
// Nothing here is decided by a timeout.

import (
	"fmt"
	"runtime"
	"strconv"
	"sync"
	"sync/atomic"
	"time"

	"github.com/welllog/golib/goz"

	"verifharness/internal/core"
)

type stressResult struct {
	Limit, Cap, Tasks int
	Seed              uint64
	MaxInside         int64
	Finished          int64
	Handled           int64
	Panics            int
	Bad               string
}

func stressOnce(limit, tasks int, seed uint64, submitters int) stressResult {
	r := core.NewRand(seed)
	res := stressResult{Limit: limit, Tasks: tasks, Seed: seed}
	var inside, maxInside, finished, handled atomic.Int64
	var badMu sync.Mutex
	bad := ""
	setBad := func(s string) {
		badMu.Lock()
		if bad == "" {
			bad = s
		}
		badMu.Unlock()
	}
	runs := make([]atomic.Int32, tasks)
	var nilHandled atomic.Int64
	nilPanics := 0 // functions ending with panic(nil) under GODEBUG=panicnil=1
	l := goz.NewLimiter(limit).SetPanicHandler(func(v any) {
		if v == nil {
			// no value: tolerated only on behalf of a panic(nil) under panicnil=1 (counted below)
			nilHandled.Add(1)
			return
		}
		handled.Add(1)
		id, ok := -1, true
		switch x := v.(type) {
		case int:
			id = x
		case scriptedErr:
			id = x.n
		case customPanic:
			id = x.N
		case *runtime.PanicNilError:
			id = 0
		case *int:
			id = 0
			ok = x == nil
		default:
			ok = false
		}
		if !ok || id < 0 || id >= tasks {
			setBad(fmt.Sprintf("handler received %T %v, not a task's panic value", v, v))
		}
	})
	n := chanCap(l)
	res.Cap = n
	// `submitters` goroutines call Go concurrently (the property quantifies over all
	// schedules of "the submitting goroutine and the workers"; the machine allows any
	// number of submitters); they are joined before Wait() is called.
	type sub struct {
		i, spin, kind int
		panics        bool
	}
	subs := make([]sub, tasks)
	for i := range subs {
		subs[i] = sub{i: i, panics: r.Chance(20), spin: r.Intn(4), kind: r.Intn(8)}
		if subs[i].panics && subs[i].kind <= 5 {
			res.Panics++ // endings whose value recover() reports: the handler must be called
		}
		if subs[i].panics && subs[i].kind == 6 {
			nilPanics++
		}
	}
	var sw sync.WaitGroup
	for g := 0; g < submitters; g++ {
		sw.Add(1)
		go func(g int) {
			defer sw.Done()
			for j := g; j < tasks; j += submitters {
				stressSubmit(l, subs[j].i, subs[j].spin, subs[j].kind, subs[j].panics, runs, &inside, &maxInside, &finished)
			}
		}(g)
	}
	sw.Wait()
	l.Wait()
	res.Finished = finished.Load()
	res.MaxInside = maxInside.Load()
	if res.Finished != int64(tasks) {
		setBad(fmt.Sprintf("Wait() returned after %d of %d submitted functions had finished", res.Finished, tasks))
	}
	if res.MaxInside > int64(n) {
		setBad(fmt.Sprintf("%d functions were inside at once, limit %d", res.MaxInside, n))
	}
	// handler calls happen before Done, hence before Wait returned
	res.Handled = handled.Load()
	if res.Handled != int64(res.Panics) {
		setBad(fmt.Sprintf("%d functions ended with a panic whose value recover() reports but the handler was called %d times when Wait() returned", res.Panics, res.Handled))
	}
	if nh := nilHandled.Load(); nh > int64(nilPanics) {
		setBad(fmt.Sprintf("the handler was called %d times with the nil interface but only %d functions ended with panic(nil) under GODEBUG=panicnil=1 (a handler call on behalf of a function that returned or called runtime.Goexit)", nh, nilPanics))
	}
	for i := range runs {
		if c := runs[i].Load(); c != 1 && res.Finished == int64(tasks) {
			setBad(fmt.Sprintf("function %d ran %d times", i, c))
			break
		}
	}
	badMu.Lock()
	res.Bad = bad
	badMu.Unlock()
	return res
}

func stressSubmit(l *goz.Limiter, i, spin, kind int, panics bool, runs []atomic.Int32, inside, maxInside, finished *atomic.Int64) {
	l.Go(func() {
		runs[i].Add(1)
		c := inside.Add(1)
		for {
			m := maxInside.Load()
			if c <= m || maxInside.CompareAndSwap(m, c) {
				break
			}
		}
		for j := 0; j < spin; j++ {
			runtime.Gosched()
		}
		inside.Add(-1)
		finished.Add(1)
		if panics {
			switch kind {
			case 0:
				panic(i)
			case 1:
				panic(error(scriptedErr{i}))
			case 2:
				panic(customPanic{N: i, Tag: "c"})
			case 3:
				panicNil(false) // panic(nil), Go >= 1.21 default: *runtime.PanicNilError
			case 4:
				panic((*int)(nil)) // typed nil: a non-nil interface value
			case 5:
				endTask("repanic", strconv.Itoa(i)) // re-panic in a deferred function
			case 6:
				panicNil(true) // panic(nil) under GODEBUG=panicnil=1: recover() returns nil, no handler call
			default:
				runtime.Goexit() // not a panic: deferred cleanup runs, no handler call
			}
		}
	})
}

func stressExtra(ctx *core.Ctx) (int, string, []core.ExtraFailure) {
	rounds, tasks := 40, 400
	if ctx.Tier == "thorough" {
		rounds, tasks = 800, 1000
	}
	rounds *= ctx.Escalate
	var fails []core.ExtraFailure
	total := 0
	inconclusive := 0
	maxSeen := map[int]int64{}
	for i := 0; i < rounds; i++ {
		limit := 1 + i%5
		if i%11 == 10 {
			limit = -(i % 3)
		}
		seed := ctx.Rand.Uint64()
		// watchdog: a round that does not come back is examined with a goroutine dump
		ch := make(chan stressResult, 1)
		submitters := 1
		if i%3 == 2 {
			submitters = 3
		}
		go func() { ch <- stressOnce(limit, tasks, seed, submitters) }()
		var res stressResult
		select {
		case res = <-ch:
		case <-time.After(30 * time.Second):
			res = stressResult{Limit: limit, Tasks: tasks, Seed: seed}
			if provenDeadlock("goz.(*Limiter).add") || provenDeadlock("sync.(*WaitGroup).Wait") {
				fails = append(fails, core.ExtraFailure{
					Failure: core.Failure{Key: "deadlock", Desc: fmt.Sprintf("free-running Limiter(limit=%d), %d tasks (20%% ending with a panic of some kind or runtime.Goexit): the run is blocked inside Go()/Wait() and no worker goroutine exists that could release it (slot or WaitGroup count leaked)", limit, tasks)},
					Payload: res})
			} else {
				inconclusive++
			}
			return total, fmt.Sprintf("stopped after %d rounds: a round did not finish within 30 s (inconclusive=%d)", i, inconclusive), fails
		}
		total += tasks
		if res.MaxInside > maxSeen[res.Cap] {
			maxSeen[res.Cap] = res.MaxInside
		}
		want := limit
		if limit < 1 {
			want = 3
		}
		if res.Cap != want && res.Bad == "" {
			res.Bad = fmt.Sprintf("NewLimiter(%d) has capacity %d, the property says %d", limit, res.Cap, want)
		}
		if res.Bad != "" {
			key := "stress"
			fails = append(fails, core.ExtraFailure{
				Failure: core.Failure{Key: key, Desc: fmt.Sprintf("free-running Limiter(limit=%d), %d tasks: %s", limit, tasks, res.Bad)},
				Payload: res})
			break
		}
	}
	return total, fmt.Sprintf("%d rounds × %d tasks (1 or 3 submitting goroutines; 20%% ending unusually: panic with int / error / struct / nil / typed-nil values, re-panic in a deferred function, panic(nil) under GODEBUG=panicnil=1, runtime.Goexit), max functions inside at once per capacity: %v", rounds, tasks, maxSeen), fails
}
