// Package c19: goz.Limiter bounds concurrency, runs every task once and survives
// panics (goz/goz.go).
//
// Tie = trace acceptance. The real Limiter runs harness-controlled tasks: each task
// logs `start`, blocks on its own channel until the script releases it, logs `finish`
// and then ends as scripted (endingKinds: return, panic with a value, panic(nil) under either
// GODEBUG panicnil setting, re-panic in a deferred function, runtime.Goexit, …); the panic
// handler logs `handler v`; Wait() callers log `waitret`. One submitting goroutine performs the queued Go calls in
// order. The answer to a script op is the sequence of events it caused, in the order
// they were logged; the Lean side plays the same script on the verified state machine
// (only enabled steps) and the two event sequences are diffed.
//
// Soundness of what is reported:
//   - a `start` that makes more than n logged [start,finish] intervals overlap, a
//     second start of a task, a `waitret` while a task submitted before the Wait call
//     is verifiably still inside its function, a handler value that is not the
//     panic value: violations (the logged interval lies inside the real one);
//   - timeouts decide only "did not happen": short ones for expected non-events
//     (blocked / waiting), generous ones (10 s) for expected events. A generous
//     timeout alone is reported as `inconclusive` and never as a violation, unless
//     a goroutine dump proves a deadlock (the blocked party waits on the Limiter and
//     no goroutine that could release it exists).
package c19

import (
	"fmt"
	"os"
	"reflect"
	"runtime"
	"strconv"
	"strings"
	"sync"
	"sync/atomic"
	"time"

	"github.com/welllog/golib/goz"

	"verifharness/internal/core"
)

func init() {
	core.Register(&core.Prop{
		ID:       "C19",
		Title:    "Limiter bounds concurrency, runs every task once and survives panics",
		Quick:    200,
		Thorough: 3000,
		Gen:      gen,
		Corpus:   corpus,
		Impl:     impl,
		Check:    check,
		Facts:    Facts,
		NonTrivial: func(c core.Case, out []string) bool {
			// at least one submission had to wait for a token and got it later
			blocked, later := false, false
			for i, l := range c.Lines[1:] {
				if isMulti(c) { // `<index> <op>`
					if _, rest, ok := strings.Cut(l, " "); ok {
						l = rest
					}
				}
				if strings.HasPrefix(l, "go ") && (out[i+1] == "blocked") {
					blocked = true
				}
				if strings.HasPrefix(l, "release ") && strings.Contains(out[i+1], "start ") {
					later = true
				}
			}
			return blocked && later
		},
		Rule:     "scripted block/finish/ending patterns on the real Limiter (8 ways a function ends: return, self-recovered panic, panic / re-panic / panic in a deferred function with values of 14 dynamic types, panic(nil) under GODEBUG=panicnil=1, runtime.Goexit, a panic aborted by Goexit; Wait(d) expiring in between), limits -2..5, 12 % of the scripts drive 2–3 Limiters alternately, 11 % use every slot once for an unusual ending and then fill all slots again; non-trivial = some submission blocked on a full channel and started after a release; distinct by hash of the script",
		Classify: classify,
		Parallel: false, // goroutine dumps (deadlock proof) must see one script at a time
		NoShrink: true,
		Extras: []core.Extra{
			{Name: "trace-acceptance", Run: traceExtra},
			{Name: "stress", Run: stressExtra},
			{Name: "recover-direct", Run: recoverExtra},
			{Name: "child-process", Run: childExtra},
		},
		Assumptions: []string{
			"Go channel semantics (buffered channel of capacity n blocks the (n+1)-th send) and sync.WaitGroup semantics (Wait returns only when the counter is zero)",
			"a panicking panic handler is outside the property (it kills the process)",
			"Go semantics of defer / recover / runtime.Goexit: a deferred function runs for every way of leaving fn; recover() returns the value of the last panic, and nil for panic(nil) under GODEBUG=panicnil=1 and for Goexit",
			"panic(nil) under GODEBUG=panicnil=1 has no value to deliver: the handler is not called (recorded observation, not a violation); runtime.Goexit is not a panic and is judged by the first sentence of the property",
			"Wait(timeout) with a positive duration is not scheduled (wall clock)",
			"with no handler configured Recover prints the panic; modelled as the same step as the handler call, exercised only in the stress run",
		},
		TrustedBase: []string{
			"harness task/handler instrumentation and its event log (own code)",
		},
	})
}

const (
	shortWait = 20 * time.Millisecond
	longWaitD = 10 * time.Second
)

// Generous waits that actually expire are charged to a per-process budget, so that a
// tree on which expected events never happen cannot stall the check: once 40 s have
// been spent that way the generous wait shrinks to 100 ms and scripts are not replayed (its expiry stays
// "inconclusive", never a violation).
var slowSpent atomic.Int64

func slowExhausted() bool { return time.Duration(slowSpent.Load()) > 40*time.Second }

func longWait() time.Duration {
	if slowExhausted() {
		return 100 * time.Millisecond
	}
	return longWaitD
}

type evt struct {
	kind string // start finish handler waitret
	arg  string
}

func (e evt) String() string {
	if e.arg == "" {
		return e.kind
	}
	return e.kind + " " + e.arg
}

type task struct {
	id      int
	kind    string  // how the function ends: ok selfrec panic repanic defpanic pnil goexit pgoexit
	val     string  // value token of the (last) panic, for the kinds that have one
	panicV  *string // value token that must reach the handler (kinds panic, repanic, defpanic): n | nil | err:n | cus:n | …
	release chan struct{}
	gid     atomic.Value // string: id of the goroutine that runs the function
}

// The ways a submitted function can END (wave 8, class "ways a task can end"). The property
// sentence "a function that panics …" covers every panic: with a value of any dynamic type,
// with nil (both GODEBUG panicnil settings), a re-panic in a deferred function of the
// function itself. runtime.Goexit is NOT a panic; it is scripted and judged separately
// (the first sentence of the property — slots, exactly once, Wait — still applies to it).
//
//	ok            returns
//	selfrec       panics and recovers by itself (own deferred function), then returns
//	panic v       panics with v (14 dynamic types; `nil` = panic(nil) under the Go >= 1.21
//	              default panicnil=0: the handler sees a *runtime.PanicNilError)
//	repanic v     panics, its own deferred function recovers that and panics anew with v
//	defpanic v    panics, and while that panic is in flight its own deferred function panics with v
//	pnil          panic(nil) while the process runs with GODEBUG=panicnil=1 (the default of
//	              main modules with `go` < 1.21, e.g. golib's own go.mod): recover() returns nil
//	goexit        runtime.Goexit()  (what t.FailNow / t.Fatal do in a worker)
//	pgoexit v     panics with v, its own deferred function calls runtime.Goexit(): Go aborts
//	              the panic, recover() in goz.Recover returns nil
var endingKinds = []string{"ok", "selfrec", "panic", "repanic", "defpanic", "pnil", "goexit", "pgoexit"}

func kindHasValue(kind string) bool {
	return kind == "panic" || kind == "repanic" || kind == "defpanic" || kind == "pgoexit"
}

// kindDelivers: recover() in goz.Recover reports the value, so it must reach the handler.
func kindDelivers(kind string) bool {
	return kind == "panic" || kind == "repanic" || kind == "defpanic"
}

// parseEnding: the tokens after `go <id>`.
func parseEnding(t []string) (kind, val string, ok bool) {
	if len(t) == 0 {
		return "", "", false
	}
	kind = t[0]
	known := false
	for _, k := range endingKinds {
		if k == kind {
			known = true
		}
	}
	if !known {
		return "", "", false
	}
	if kindHasValue(kind) {
		if len(t) != 2 || !validTok(t[1]) {
			return "", "", false
		}
		return kind, t[1], true
	}
	return kind, "", len(t) == 1
}

// panic(nil) depends on the process-wide GODEBUG setting panicnil, which the runtime reads
// at the panic statement (and re-reads whenever GODEBUG is changed with os.Setenv). Every
// panic(nil) of the harness goes through panicNil: it pins the setting for the instant of the
// panic statement and restores the environment in a deferred function of its own frame, i.e.
// BEFORE the panic reaches the deferred function of goz.Recover. The mutex serialises
// concurrent nil-panics with different settings.
var (
	panicNilMu              sync.Mutex
	godebugOrig, godebugSet = os.LookupEnv("GODEBUG")
)

func panicNil(old bool) {
	panicNilMu.Lock()
	defer panicNilMu.Unlock()
	v := "panicnil=0"
	if old {
		v = "panicnil=1"
	}
	if godebugSet && godebugOrig != "" {
		v = godebugOrig + "," + v
	}
	_ = os.Setenv("GODEBUG", v)
	defer func() {
		if godebugSet {
			_ = os.Setenv("GODEBUG", godebugOrig)
		} else {
			_ = os.Unsetenv("GODEBUG")
		}
	}()
	var nothing any
	panic(nothing)
}

// endTask makes the calling function end the scripted way (it is the last statement of the
// submitted function).
func endTask(kind, val string) {
	switch kind {
	case "ok":
	case "selfrec":
		func() {
			defer func() { _ = recover() }()
			panic("recovered by the function itself")
		}()
	case "panic":
		doPanic(val)
	case "repanic":
		defer func() {
			_ = recover()
			doPanic(val)
		}()
		panic("first panic, recovered by a deferred function of the function itself")
	case "defpanic":
		defer func() { doPanic(val) }()
		panic("first panic, still in flight when the deferred function panics")
	case "pnil":
		panicNil(true)
	case "goexit":
		runtime.Goexit()
	case "pgoexit":
		defer runtime.Goexit()
		doPanic(val)
	}
}

// Panic values of different dynamic types (the handler must get the VALUE, not a
// rendering of it): int, nil (Go turns panic(nil) into *runtime.PanicNilError),
// an error, a value of a harness-defined struct type.
type customPanic struct {
	N   int
	Tag string
}

type scriptedErr struct{ n int }

func (e scriptedErr) Error() string { return "scripted error " + strconv.Itoa(e.n) }

// Unusual dynamic types: typed nil pointer / map / slice / func / chan (non-nil
// interface values that "carry nothing"), run-time errors raised by the Go runtime, a
// struct wrapping a nil error.
var specialVals = []string{"nil", "tnp", "nmap", "nslice", "nfunc", "nchan", "rtmap", "rtidx", "rtnil", "wrapnil"}

type wrapNil struct{ Err error }

func validTok(tok string) bool {
	for _, sv := range specialVals {
		if tok == sv {
			return true
		}
	}
	for _, pre := range []string{"err:", "cus:"} {
		if strings.HasPrefix(tok, pre) {
			n, err := strconv.Atoi(tok[len(pre):])
			return err == nil && n >= 0 && strconv.Itoa(n) == tok[len(pre):]
		}
	}
	n, err := strconv.Atoi(tok)
	return err == nil && strconv.Itoa(n) == tok
}

// doPanic panics as the token says (the run-time errors are raised by really doing the
// faulting operation).
func doPanic(tok string) {
	switch tok {
	case "rtmap":
		var m map[string]int
		m["x"] = 1
	case "rtidx":
		xs := make([]int, 1)
		i := 3
		_ = xs[i]
	case "rtnil":
		var p *customPanic
		_ = p.N
	case "nil":
		panicNil(false) // panic(nil) under the Go >= 1.21 default: a *runtime.PanicNilError
	}
	panic(panicValue(tok))
}

func panicValue(tok string) any {
	switch {
	case tok == "nil":
		return nil
	case tok == "tnp":
		return (*int)(nil)
	case tok == "nmap":
		return map[string]int(nil)
	case tok == "nslice":
		return []int(nil)
	case tok == "nfunc":
		return (func())(nil)
	case tok == "nchan":
		return (chan int)(nil)
	case tok == "wrapnil":
		return wrapNil{Err: nil}
	case strings.HasPrefix(tok, "err:"):
		n, _ := strconv.Atoi(tok[4:])
		return error(scriptedErr{n})
	case strings.HasPrefix(tok, "cus:"):
		n, _ := strconv.Atoi(tok[4:])
		return customPanic{N: n, Tag: "c"}
	}
	n, _ := strconv.Atoi(tok)
	return n
}

// tokOf renders what the handler received back into a token (by dynamic type).
func tokOf(v any) string {
	switch x := v.(type) {
	case int:
		return strconv.Itoa(x)
	case *runtime.PanicNilError:
		return "nil"
	case *int:
		if x == nil {
			return "tnp"
		}
		return "other:*int-non-nil"
	case map[string]int:
		if x == nil {
			return "nmap"
		}
		return "other:map-non-nil"
	case []int:
		if x == nil {
			return "nslice"
		}
		return "other:slice-non-nil"
	case func():
		if x == nil {
			return "nfunc"
		}
		return "other:func-non-nil"
	case chan int:
		if x == nil {
			return "nchan"
		}
		return "other:chan-non-nil"
	case wrapNil:
		if x.Err == nil {
			return "wrapnil"
		}
		return "other:wrapNil-altered"
	case runtime.Error:
		msg := x.Error()
		switch {
		case strings.Contains(msg, "assignment to entry in nil map"):
			return "rtmap"
		case strings.Contains(msg, "index out of range"):
			return "rtidx"
		case strings.Contains(msg, "nil pointer dereference"):
			return "rtnil"
		}
		return "other:runtime.Error:" + strings.ReplaceAll(msg, " ", "_")
	case scriptedErr:
		return "err:" + strconv.Itoa(x.n)
	case customPanic:
		if x.Tag == "c" {
			return "cus:" + strconv.Itoa(x.N)
		}
		return "other:customPanic-altered"
	case string:
		if strings.HasPrefix(x, "cleanup panic") {
			return "cleanup-panic"
		}
		return "string:" + strings.ReplaceAll(x, " ", "_")
	case nil:
		return "other:untyped-nil"
	default:
		return fmt.Sprintf("other:%T", v)
	}
}

type player struct {
	l       *goz.Limiter
	mu      sync.Mutex
	log     []evt
	cond    *sync.Cond
	tasks   []*task
	subQ    chan *task
	subIdle sync.WaitGroup
	// script-side expectation (plain counters; NOT the Lean model)
	n          int
	holding    map[int]bool // started and not yet released by the script
	pending    []int
	waiting    int    // Wait() calls that have not returned
	timedWaits int    // Wait(d) calls that may have left their helper goroutine behind
	overflow   bool   // a submission started although n functions were inside: the script's expectations are void
	noHandler  string // proof that a panic value can no longer reach the handler
	leakNote   string // how the functions had ended when surplus tokens were proven stuck in the channel
	incon      bool
	deadlocked string
}

func (p *player) emit(kind, arg string) {
	p.mu.Lock()
	p.log = append(p.log, evt{kind, arg})
	p.cond.Broadcast()
	p.mu.Unlock()
}

// awaitLen waits until the log has at least n entries or the timeout expires.
func (p *player) awaitLen(n int, d time.Duration) bool {
	deadline := time.Now().Add(d)
	timer := time.AfterFunc(d, func() {
		p.mu.Lock()
		p.cond.Broadcast()
		p.mu.Unlock()
	})
	defer timer.Stop()
	p.mu.Lock()
	defer p.mu.Unlock()
	for len(p.log) < n {
		if !time.Now().Before(deadline) {
			if d >= 100*time.Millisecond {
				slowSpent.Add(int64(d))
			}
			return false
		}
		p.cond.Wait()
	}
	return true
}

// awaitLenProof is awaitLen with an early exit: every 50 ms `proof` is asked whether the
// awaited events can provably never come.
func (p *player) awaitLenProof(n int, d time.Duration, proof func() bool) bool {
	deadline := time.Now().Add(d)
	for {
		if p.awaitLen(n, 50*time.Millisecond) {
			return true
		}
		if proof() {
			return false
		}
		if !time.Now().Before(deadline) {
			if d >= 100*time.Millisecond {
				slowSpent.Add(int64(d))
			}
			return false
		}
	}
}

func (p *player) logLen() int {
	p.mu.Lock()
	defer p.mu.Unlock()
	return len(p.log)
}

func (p *player) since(from int) []evt {
	p.mu.Lock()
	defer p.mu.Unlock()
	return append([]evt{}, p.log[from:]...)
}

// mkHandler: handler number h logs `handler <value>` (h = 0) or `handler <value>@h`.
func (p *player) mkHandler(h int) func(any) {
	suffix := ""
	if h != 0 {
		suffix = "@" + strconv.Itoa(h)
	}
	return func(v any) { p.emit("handler", tokOf(v)+suffix) }
}

func newPlayer(limit int) *player {
	p := &player{holding: map[int]bool{}}
	p.cond = sync.NewCond(&p.mu)
	p.l = goz.NewLimiter(limit).SetPanicHandler(p.mkHandler(0))
	p.subQ = make(chan *task, 1024)
	go func() {
		for t := range p.subQ {
			t := t
			p.l.Go(func() {
				t.gid.Store(goid())
				p.emit("start", strconv.Itoa(t.id))
				<-t.release
				p.emit("finish", strconv.Itoa(t.id))
				endTask(t.kind, t.val)
			})
		}
	}()
	return p
}

// chanCap / chanLen read the private channel through reflection (observation only).
func chanCap(l *goz.Limiter) int {
	defer func() { _ = recover() }()
	return reflect.ValueOf(l).Elem().FieldByName("c").Cap()
}

func chanLen(l *goz.Limiter) int {
	defer func() { _ = recover() }()
	return reflect.ValueOf(l).Elem().FieldByName("c").Len()
}

// provenDeadlock inspects a dump of all goroutines: `who` (a frame substring) is
// blocked inside the Limiter and no goroutine executing goz.Recover exists, so
// nothing can ever unblock it.
func provenDeadlock(who string) bool {
	buf := make([]byte, 1<<20)
	buf = buf[:runtime.Stack(buf, true)]
	blocked, workers := false, 0
	for _, g := range strings.Split(string(buf), "\n\n") {
		if strings.Contains(g, "goz.Recover") {
			workers++
		}
		if strings.Contains(g, who) && (who == "" || !strings.Contains(g, "goz.(*Limiter).Wait.func1")) {
			// (not the helper goroutine of a Wait(d) — helpers of abandoned scripts stay parked for ever)
			// parked, not merely on its way out of the call (woken but not yet scheduled)
			hdr, _, _ := strings.Cut(g, "\n")
			if who == "" || !(strings.Contains(hdr, "[running") || strings.Contains(hdr, "[runnable")) {
				blocked = true
			}
		}
	}
	return blocked && workers == 0
}

// stuck: provenDeadlock(who) held on two consecutive polls (awaitLenProof polls every 50 ms):
// an early exit from a generous wait that is as sound as the dump taken after the wait.
func stuck(who string) func() bool {
	return twice(func() bool { return provenDeadlock(who) })
}

func twice(f func() bool) func() bool {
	n := 0
	return func() bool {
		if f() {
			n++
		} else {
			n = 0
		}
		return n >= 2
	}
}

func allStacks() string {
	buf := make([]byte, 1<<20)
	for {
		n := runtime.Stack(buf, true)
		if n < len(buf) {
			return string(buf[:n])
		}
		buf = make([]byte, 2*len(buf))
	}
}

// releasedAllGone: every function the script has released has left AND the goroutine that ran
// it (inside goz.Recover) no longer exists: none of them can give a token back any more.
func (p *player) releasedAllGone() bool {
	dump := "\n\n" + allStacks()
	for _, t := range p.tasks {
		select {
		case <-t.release:
			id, _ := t.gid.Load().(string)
			if id == "" || id == "?" || strings.Contains(dump, "\n\ngoroutine "+id+" [") {
				return false
			}
		default:
		}
	}
	return true
}

// slotsLeaked: a sound witness of a leaked slot without waiting for a timeout. The submitting
// goroutine is parked in the channel send of add(), the goroutines of ALL functions the script
// has released have ended, and the channel holds more tokens than there are functions inside
// (the parked submission has not sent its token): the surplus tokens belong to nobody and
// can never be received.
func (p *player) slotsLeaked() bool {
	if !p.releasedAllGone() {
		return false
	}
	parked := false
	for _, g := range strings.Split(allStacks(), "\n\n") {
		if strings.Contains(g, "goz.(*Limiter).add") {
			hdr, _, _ := strings.Cut(g, "\n")
			parked = strings.Contains(hdr, "[chan send")
		}
	}
	return parked && chanLen(p.l) > len(p.holding)
}

func (p *player) leakDesc() string {
	return fmt.Sprintf("%d tokens are in the channel but only %d functions are inside (%v) and the goroutine of every function that has left has ended: %d slot(s) leaked; %s", chanLen(p.l), len(p.holding), keysOf(p.holding), chanLen(p.l)-len(p.holding), p.endings())
}

// endings: how the functions that have been released so far were scripted to end (part of
// every deadlock / leak description: the ending is what the failing input is about).
func (p *player) endings() string {
	var es []string
	for _, t := range p.tasks {
		select {
		case <-t.release:
			e := fmt.Sprintf("%d:%s", t.id, t.kind)
			if t.val != "" {
				e += " " + t.val
			}
			es = append(es, e)
		default:
		}
	}
	if len(es) == 0 {
		return "no function has left yet"
	}
	return "functions that have left so far ended as " + strings.Join(es, ", ")
}

// helperBaseline: helper goroutines of Wait(d) that belong to abandoned (cut-short)
// scripts; they stay parked for ever and must not be waited for.
var helperBaseline int

func countWaitHelpers() int {
	buf := make([]byte, 1<<20)
	for {
		n := runtime.Stack(buf, true)
		if n < len(buf) {
			return strings.Count(string(buf[:n]), "goz.(*Limiter).Wait.func1(")
		}
		buf = make([]byte, 2*len(buf))
	}
}

// awaitNoWaitHelper waits until no goroutine of THIS script is inside the helper of
// Limiter.Wait(d) (scripts run one at a time; helpers of abandoned scripts are in the
// baseline).
func awaitNoWaitHelper(d time.Duration) bool {
	deadline := time.Now().Add(d)
	for {
		if countWaitHelpers() <= helperBaseline {
			return true
		}
		if time.Now().After(deadline) {
			return false
		}
		time.Sleep(200 * time.Microsecond)
	}
}

func goid() string {
	buf := make([]byte, 64)
	buf = buf[:runtime.Stack(buf, false)]
	f := strings.Fields(string(buf)) // "goroutine 123 [running]:"
	if len(f) >= 2 {
		return f[1]
	}
	return "?"
}

// goroutineGone: the goroutine that ran the task's function no longer exists.
func goroutineGone(t *task) bool {
	id, _ := t.gid.Load().(string)
	if id == "" || id == "?" {
		return false
	}
	buf := make([]byte, 1<<20)
	for {
		n := runtime.Stack(buf, true)
		if n < len(buf) {
			buf = buf[:n]
			break
		}
		buf = make([]byte, 2*len(buf))
	}
	return !strings.Contains("\n\n"+string(buf), "\n\ngoroutine "+id+" [")
}

func render(ev []evt, dflt string) string {
	if len(ev) == 0 {
		return dflt
	}
	s := make([]string, len(ev))
	for i, e := range ev {
		s[i] = e.String()
	}
	return strings.Join(s, " | ")
}

func (p *player) finishScript() {
	if p.timedWaits > 0 && (p.incon || p.deadlocked != "" || p.overflow || p.noHandler != "" || p.leakNote != "") {
		// The script was cut short with tasks / queued submissions left AND the helper
		// goroutine of an expired Wait(d) may still sit in l.w.Wait(). Draining now could
		// take the WaitGroup counter through zero right before a queued Add(1), which
		// makes sync.WaitGroup panic inside that helper and kills the whole check process
		// (real-code behaviour outside this property, review §2). Leave everything
		// parked instead: a few goroutines leak, nothing moves any more.
		helperBaseline = countWaitHelpers()
		return
	}
	// let everything drain so no goroutine outlives the case
	for _, t := range p.tasks {
		select {
		case <-t.release:
		default:
			close(t.release)
		}
	}
	close(p.subQ)
}

func (p *player) op(t []string) string {
	if p.incon || p.deadlocked != "" || p.overflow || p.noHandler != "" || p.leakNote != "" {
		return "skipped" // the script's expectation is void after a timeout / a witnessed violation
	}
	from := p.logLen()
	switch t[0] {
	case "go":
		if len(t) < 3 {
			return "bad-op"
		}
		id, err := strconv.Atoi(t[1])
		if err != nil || id != len(p.tasks) || p.waiting > 0 {
			return "bad-op"
		}
		tk := &task{id: id, release: make(chan struct{})}
		kind, val, ok := parseEnding(t[2:])
		if !ok {
			return "bad-op"
		}
		tk.kind, tk.val = kind, val
		if kindDelivers(kind) {
			v := val
			tk.panicV = &v
		}
		if p.timedWaits > 0 && len(p.holding) == 0 && len(p.pending) == 0 {
			// The helper goroutine of an expired Wait(d) sits in l.w.Wait() until the counter
			// reaches zero. sync.WaitGroup forbids an Add from zero while such a Wait has not
			// returned ("WaitGroup is reused before previous Wait has returned" — a crash of
			// the real code that is outside this property, see the review): let it leave first.
			if !awaitNoWaitHelper(longWait()) {
				p.incon = true
				return "inconclusive"
			}
			p.timedWaits = 0
		}
		p.tasks = append(p.tasks, tk)
		p.subQ <- tk
		if len(p.pending) > 0 {
			p.pending = append(p.pending, id)
			time.Sleep(shortWait / 4)
			return render(p.since(from), "queued")
		}
		if len(p.holding) < p.n {
			// expected to start
			stuckAdd, leaked := stuck("goz.(*Limiter).add"), twice(p.slotsLeaked)
			if !p.awaitLenProof(from+1, longWait(), func() bool { return stuckAdd() || leaked() }) {
				if p.logLen() == from && p.slotsLeaked() {
					p.deadlocked = fmt.Sprintf("submission of task %d is blocked in add(): %s", id, p.leakDesc())
					return "deadlock"
				}
				if provenDeadlock("goz.(*Limiter).add") {
					p.deadlocked = fmt.Sprintf("submission of task %d is blocked in add() although only %d of %d tokens should be held, and no worker goroutine exists that could return one (slot leaked; %s)", id, len(p.holding), p.n, p.endings())
					return "deadlock"
				}
				p.incon = true
				p.pending = append(p.pending, id)
				return "inconclusive"
			}
			p.holding[id] = true
			return render(p.since(from), "blocked")
		}
		// expected to block: a short wait decides "did not start"
		p.awaitLen(from+1, shortWait)
		ev := p.since(from)
		if len(ev) == 0 {
			p.pending = append(p.pending, id)
		} else {
			p.holding[id] = true // it started although the channel should be full
			p.overflow = true    // (Check reports the overlap; the rest of the script is void)
		}
		return render(ev, "blocked")
	case "release":
		if len(t) != 2 {
			return "bad-op"
		}
		id, err := strconv.Atoi(t[1])
		if err != nil || id < 0 || id >= len(p.tasks) || !p.holding[id] {
			return "bad-op"
		}
		tk := p.tasks[id]
		delete(p.holding, id)
		close(tk.release)
		want := 1 // finish
		if tk.panicV != nil {
			want++ // handler
		}
		startNext := -1
		if len(p.pending) > 0 {
			want++ // the head of the queue gets the token
			startNext = p.pending[0]
		}
		if p.waiting > 0 && len(p.holding) == 0 && len(p.pending) == 0 {
			want += p.waiting
		}
		stuckAdd, stuckWait := stuck("goz.(*Limiter).add"), stuck("sync.(*WaitGroup).Wait")
		leaked := twice(p.slotsLeaked)
		handlerLost := func() bool {
			ev := p.since(from)
			if tk.panicV != nil && hasEvt(ev, "finish") && !hasEvt(ev, "handler") && goroutineGone(tk) {
				return true
			}
			if !hasEvt(ev, "finish") {
				return false
			}
			if startNext >= 0 && !hasEvt(ev, "start") {
				return stuckAdd() || leaked()
			}
			if p.waiting > 0 && len(p.holding) == 0 && len(p.pending) == 0 && !hasEvt(ev, "waitret") {
				return stuckWait()
			}
			return false
		}
		if !p.awaitLenProof(from+want, longWait(), handlerLost) {
			ev := p.since(from)
			if startNext >= 0 && hasEvt(ev, "finish") && !hasEvt(ev, "start") && p.slotsLeaked() {
				p.deadlocked = fmt.Sprintf("after task %d left its function the queued submission %d stays blocked in add(): %s", id, startNext, p.leakDesc())
				return render(ev, "") + " | deadlock"
			}
			if startNext >= 0 && !hasEvt(ev, "start") && provenDeadlock("goz.(*Limiter).add") {
				p.deadlocked = fmt.Sprintf("after task %d left its function the queued submission %d stays blocked in add() and no worker goroutine exists that could return a token (slot leaked; %s)", id, startNext, p.endings())
				return render(ev, "") + " | deadlock"
			}
			if tk.panicV != nil && hasEvt(ev, "finish") && !hasEvt(ev, "handler") && goroutineGone(tk) {
				// the function has left (finish is logged) and the goroutine that ran it
				// (goz.Recover) has ended: the handler can never be called for this panic
				p.noHandler = fmt.Sprintf("task %d panicked with %s, the goroutine that ran it inside goz.Recover has ended and the handler was never called", id, *tk.panicV)
				return render(ev, "") + " | handler-missing"
			}
			if p.waiting > 0 && !hasEvt(ev, "waitret") && provenDeadlock("sync.(*WaitGroup).Wait") {
				p.deadlocked = fmt.Sprintf("after task %d left its function Wait() stays blocked and no worker goroutine exists that could call Done (WaitGroup count leaked; %s)", id, p.endings())
				return render(ev, "") + " | deadlock"
			}
			p.incon = true
			return render(ev, "") + " | inconclusive"
		}
		// a short settle so that anything unexpected (extra start, early waitret) is seen
		time.Sleep(shortWait / 10)
		ev := p.since(from)
		for _, e := range ev {
			switch e.kind {
			case "start":
				sid, _ := strconv.Atoi(e.arg)
				p.holding[sid] = true
				if len(p.pending) > 0 && p.pending[0] == sid {
					p.pending = p.pending[1:]
				}
			case "waitret":
				p.waiting--
			}
		}
		return render(ev, "")
	case "wait":
		if len(t) != 1 || len(p.pending) > 0 {
			return "bad-op"
		}
		p.waiting++
		go func() {
			p.l.Wait()
			p.emit("waitret", "")
		}()
		if len(p.holding) == 0 {
			if !p.awaitLenProof(from+1, longWait(), stuck("sync.(*WaitGroup).Wait")) {
				if provenDeadlock("sync.(*WaitGroup).Wait") {
					p.deadlocked = "Wait() stays blocked although every submitted task has left its function and no worker goroutine exists (WaitGroup count leaked; " + p.endings() + ")"
					return "deadlock"
				}
				p.incon = true
				return "inconclusive"
			}
		} else {
			p.awaitLen(from+1, shortWait)
		}
		ev := p.since(from)
		for _, e := range ev {
			if e.kind == "waitret" {
				p.waiting--
			}
		}
		return render(ev, "waiting")
	case "sethandler":
		// SetPanicHandler between uses (a plain field store: only while the submitting
		// goroutine is idle, otherwise the real code has a data race). Functions already
		// submitted keep the handler that was configured when they were submitted.
		if len(t) != 2 || len(p.pending) > 0 {
			return "bad-op"
		}
		h, err := strconv.Atoi(t[1])
		if err != nil || h < 0 || strconv.Itoa(h) != t[1] {
			return "bad-op"
		}
		p.l.SetPanicHandler(p.mkHandler(h))
		return "ok"
	case "waitt":
		// Wait(d), d > 0: returns when idle or when d has expired; must leave the Limiter
		// as it was. The answer carries no timing; what the call did to the slots shows in
		// the following ops (a start that should have blocked = `bound` violation).
		if len(t) != 2 {
			return "bad-op"
		}
		ms, err := strconv.Atoi(t[1])
		if err != nil || ms <= 0 || strconv.Itoa(ms) != t[1] {
			return "bad-op"
		}
		p.timedWaits++
		ret := make(chan struct{})
		go func() { p.l.Wait(time.Duration(ms) * time.Millisecond); close(ret) }()
		select {
		case <-ret:
		case <-time.After(longWait()):
			slowSpent.Add(int64(longWaitD))
			p.incon = true
			return "inconclusive"
		}
		return "timedwait"
	case "k":
		if len(t) != 1 {
			return "bad-op"
		}
		// quiescence: the token of a released task is received after its Done;
		// poll until the expected value shows (generous), report what is there
		want := len(p.holding)
		if len(p.pending) > 0 && want < p.n {
			want++
		}
		// (k < want cannot become right by waiting: every holder sent its token before it started)
		d := longWait()
		deadline := time.Now().Add(d)
		k := chanLen(p.l)
		nobody := twice(p.releasedAllGone)
		lastDump := time.Now()
		for k > want && time.Now().Before(deadline) {
			time.Sleep(200 * time.Microsecond)
			if time.Since(lastDump) >= 50*time.Millisecond {
				// early exit: the goroutines of all released functions have ended (two dumps
				// 50 ms apart), so nobody can receive the surplus tokens any more
				lastDump = time.Now()
				if nobody() {
					if k = chanLen(p.l); k > want {
						p.leakNote = p.endings()
						return strconv.Itoa(k)
					}
				}
			}
			k = chanLen(p.l)
		}
		if k > want {
			slowSpent.Add(int64(d))
			// more tokens than holders after 10 s: only a leak if nobody can return them
			if !provenDeadlock("") {
				p.incon = true
				return strconv.Itoa(want) // inconclusive, not a violation
			}
			p.leakNote = p.endings()
		}
		return strconv.Itoa(k)
	}
	return "bad-op"
}

func hasEvt(ev []evt, kind string) bool {
	for _, e := range ev {
		if e.kind == kind {
			return true
		}
	}
	return false
}

// results of the last impl run, for Check (core calls Check right after Impl on the
// same goroutine; Parallel is false)
var lastIncon bool
var lastDeadlock string
var lastNoHandler string
var lastLeakNote string

// impl plays the script; a run that hit a generous timeout without a deadlock proof
// is inconclusive and is played again (a timeout alone is never a violation).
func impl(c core.Case) []string {
	var out []string
	for attempt := 0; attempt < 3; attempt++ {
		out = implOnce(c)
		if !lastIncon || slowExhausted() {
			break
		}
	}
	return out
}

func isMulti(c core.Case) bool {
	h := core.Toks(c.Lines[0])
	return len(h) >= 3 && h[2] == "multi"
}

// implMulti: several Limiters driven alternately by one script (op `<index> <op>`); each has
// its own player (own tasks, own submitter goroutine, own event log).
func implMulti(c core.Case) []string {
	var ps []*player
	lastIncon, lastDeadlock, lastNoHandler, lastLeakNote = false, "", "", ""
	out := core.RunOps(c,
		func(hdr []string) string {
			if len(hdr) < 2 || hdr[0] != "multi" {
				return "bad-op"
			}
			caps := "caps"
			for _, h := range hdr[1:] {
				limit, err := strconv.Atoi(h)
				if err != nil {
					return "bad-op"
				}
				p := newPlayer(limit)
				p.n = chanCap(p.l)
				ps = append(ps, p)
				caps += " " + strconv.Itoa(p.n)
			}
			return caps
		},
		func(t []string) string {
			if len(t) < 2 {
				return "bad-op"
			}
			i, err := strconv.Atoi(t[0])
			if err != nil || i < 0 || i >= len(ps) || strconv.Itoa(i) != t[0] {
				return "bad-op"
			}
			return ps[i].op(t[1:])
		})
	for i, p := range ps {
		if p.incon {
			lastIncon = true
		}
		if p.deadlocked != "" && lastDeadlock == "" {
			lastDeadlock = fmt.Sprintf("limiter %d: %s", i, p.deadlocked)
		}
		if p.noHandler != "" && lastNoHandler == "" {
			lastNoHandler = fmt.Sprintf("limiter %d: %s", i, p.noHandler)
		}
		if p.leakNote != "" && lastLeakNote == "" {
			lastLeakNote = p.leakNote
		}
		p.finishScript()
	}
	return out
}

// splitMulti: the sub-script and sub-output of every Limiter of a multi script.
func splitMulti(c core.Case, out []string) ([]core.Case, [][]string) {
	hdr := core.Toks(c.Lines[0])
	caps := strings.Fields(out[0])
	var cs []core.Case
	var os [][]string
	for i, l := range hdr[3:] {
		cs = append(cs, core.Case{Lines: []string{"@ C19 lim " + l}, Tag: "multi-part"})
		capi := "cap ?"
		if len(caps) == len(hdr[3:])+1 && caps[0] == "caps" {
			capi = "cap " + caps[i+1]
		}
		os = append(os, []string{capi})
	}
	for j := 1; j < len(c.Lines) && j < len(out); j++ {
		t := core.Toks(c.Lines[j])
		if len(t) < 2 {
			continue
		}
		i, err := strconv.Atoi(t[0])
		if err != nil || i < 0 || i >= len(cs) {
			continue
		}
		cs[i].Lines = append(cs[i].Lines, strings.Join(t[1:], " "))
		os[i] = append(os[i], out[j])
	}
	return cs, os
}

func implOnce(c core.Case) []string {
	if isMulti(c) {
		return implMulti(c)
	}
	var p *player
	lastIncon, lastDeadlock, lastNoHandler, lastLeakNote = false, "", "", ""
	out := core.RunOps(c,
		func(hdr []string) string {
			if len(hdr) != 2 || hdr[0] != "lim" {
				return "bad-op"
			}
			limit, err := strconv.Atoi(hdr[1])
			if err != nil {
				return "bad-op"
			}
			p = newPlayer(limit)
			p.n = chanCap(p.l)
			return "cap " + strconv.Itoa(p.n)
		},
		func(t []string) string {
			if p == nil {
				return "bad-op"
			}
			return p.op(t)
		})
	if p != nil {
		lastIncon, lastDeadlock, lastNoHandler, lastLeakNote = p.incon, p.deadlocked, p.noHandler, p.leakNote
		p.finishScript()
	}
	return out
}

// check: the property's own predicate on the logged events (independent of the Lean
// model): interval overlap ≤ n, exactly-once, Wait, handler values, default limit.
func check(c core.Case, out []string) *core.Failure {
	if isMulti(c) {
		// every Limiter of the script is judged on its own
		cs, os := splitMulti(c, out)
		for i := range cs {
			if f := checkOne(cs[i], os[i]); f != nil {
				f.Desc = fmt.Sprintf("limiter %d of %q (judged on its own ops %v): %s", i, c.Lines[0], cs[i].Lines[1:], f.Desc)
				return f
			}
		}
		return nil
	}
	return checkOne(c, out)
}

func checkOne(c core.Case, out []string) *core.Failure {
	hdr := core.Toks(c.Lines[0])
	limit, _ := strconv.Atoi(hdr[3])
	n := limit
	if limit < 1 {
		n = 3
	}
	if out[0] != "cap "+strconv.Itoa(n) {
		return &core.Failure{Key: "default-limit", Desc: fmt.Sprintf("NewLimiter(%d): channel capacity observed %q, the property says %d", limit, out[0], n)}
	}
	if lastDeadlock != "" {
		return &core.Failure{Key: "deadlock", Desc: lastDeadlock}
	}
	if lastNoHandler != "" {
		return &core.Failure{Key: "handler", Desc: lastNoHandler}
	}
	curHandler := 0
	type tinfo struct {
		hid               int
		kind              string  // scripted ending
		panicV            *string // the value recover() reports, i.e. what must reach the handler
		started, finished int
		handled           int
	}
	var tasks []*tinfo
	running := map[int]bool{}
	submittedBeforeWait := [][]int{} // per pending Wait call: tasks whose Go had returned
	for i := 1; i < len(c.Lines); i++ {
		t := core.Toks(c.Lines[i])
		switch t[0] {
		case "go":
			ti := &tinfo{hid: curHandler}
			if kind, val, ok := parseEnding(t[2:]); ok {
				ti.kind = kind
				if kindDelivers(kind) {
					v := val
					ti.panicV = &v
				}
			}
			tasks = append(tasks, ti)
		case "sethandler":
			if out[i] == "ok" {
				curHandler, _ = strconv.Atoi(t[1])
			}
		case "wait":
			var ids []int
			for id, ti := range tasks {
				if ti.started > 0 {
					ids = append(ids, id)
				}
			}
			submittedBeforeWait = append(submittedBeforeWait, ids)
		}
		if out[i] == "bad-op" || out[i] == "dead" || out[i] == "panic" {
			if out[i] == "panic" {
				return &core.Failure{Key: "harness-panic", Desc: fmt.Sprintf("op %d %q panicked in the harness goroutine", i, c.Lines[i])}
			}
			continue
		}
		for _, es := range strings.Split(out[i], " | ") {
			f := strings.Fields(es)
			if len(f) == 0 {
				continue
			}
			switch f[0] {
			case "start":
				id, _ := strconv.Atoi(f[1])
				if id >= len(tasks) {
					return &core.Failure{Key: "exactly-once", Desc: fmt.Sprintf("op %d: start of unknown task %d", i, id)}
				}
				tasks[id].started++
				if tasks[id].started > 1 {
					return &core.Failure{Key: "exactly-once", Desc: fmt.Sprintf("op %d %q: task %d started a second time", i, c.Lines[i], id)}
				}
				running[id] = true
				if len(running) > n {
					return &core.Failure{Key: "bound", Desc: fmt.Sprintf("op %d %q: %d tasks are inside their function at once (%v), limit %d", i, c.Lines[i], len(running), keysOf(running), n)}
				}
			case "finish":
				id, _ := strconv.Atoi(f[1])
				tasks[id].finished++
				delete(running, id)
			case "handler":
				ok := false
				for _, ti := range tasks {
					if ti.panicV != nil && ti.finished > 0 && ti.handled == 0 && expectHandled(*ti.panicV, ti.hid) == f[1] {
						ti.handled++
						ok = true
						break
					}
				}
				if !ok {
					// panic(nil) under GODEBUG=panicnil=1: recover() returns nil, there is no value
					// to deliver. The code as it is does not call the handler (recorded
					// observation); a handler call with the nil interface is tolerated by THIS
					// oracle (the correspondence with the Lean model then shows the difference).
					for _, ti := range tasks {
						if ti.kind == "pnil" && ti.finished > 0 && ti.handled == 0 && expectHandled("other:untyped-nil", ti.hid) == f[1] {
							ti.handled++
							ok = true
							break
						}
					}
				}
				if !ok {
					return &core.Failure{Key: "handler", Desc: fmt.Sprintf("op %d %q: the handler event %q is not <value>[@<handler id>] of a task whose panic value recover() reports (endings panic / repanic / defpanic), that was not yet handled and was submitted while that handler was the configured one", i, c.Lines[i], f[1])}
				}
			case "waitret":
				if len(submittedBeforeWait) == 0 {
					return &core.Failure{Key: "wait", Desc: fmt.Sprintf("op %d: a Wait() returned that was never called", i)}
				}
				ids := submittedBeforeWait[0]
				submittedBeforeWait = submittedBeforeWait[1:]
				for _, id := range ids {
					if tasks[id].finished == 0 {
						return &core.Failure{Key: "wait", Desc: fmt.Sprintf("op %d %q: Wait() returned while task %d, submitted before the call, is still inside its function (not released by the script)", i, c.Lines[i], id)}
					}
				}
			}
		}
		if t[0] == "k" {
			if k, err := strconv.Atoi(out[i]); err == nil && k < len(running) {
				return &core.Failure{Key: "token-early", Desc: fmt.Sprintf("op %d: only %d tokens are in the channel while %d tasks are inside their function: a token was given back before its task finished", i, k, len(running))}
			} else if err == nil && k != len(running) {
				return &core.Failure{Key: "leak", Desc: fmt.Sprintf("op %d: %d tokens are in the channel while %d tasks are inside their function and no goroutine exists that could return the others (slot leaked; %s)", i, k, len(running), lastLeakNote)}
			}
		}
		// a released panicking task must have reached the handler by the end of its op
		if t[0] == "release" && !strings.Contains(out[i], "inconclusive") && !strings.Contains(out[i], "deadlock") {
			id, _ := strconv.Atoi(t[1])
			if id < len(tasks) && tasks[id].panicV != nil && tasks[id].finished > 0 && tasks[id].handled == 0 {
				return &core.Failure{Key: "handler", Desc: fmt.Sprintf("op %d %q: task %d panicked with %s but the handler did not receive it before the next observable event", i, c.Lines[i], id, *tasks[id].panicV)}
			}
		}
	}
	return nil
}

// expectHandled: the event a panic value must produce given the handler that was
// configured when the function was submitted.
func expectHandled(tok string, hid int) string {
	if hid == 0 {
		return tok
	}
	return tok + "@" + strconv.Itoa(hid)
}

func keysOf(m map[int]bool) []int {
	var ks []int
	for k := range m {
		ks = append(ks, k)
	}
	return ks
}

func corpus() []core.Case {
	return []core.Case{
		{Lines: []string{"@ C19 lim 1", "go 0 ok", "go 1 panic 7", "go 2 ok", "release 0", "k", "release 1", "release 2", "wait", "k"}},
		{Lines: []string{"@ C19 lim 0", "go 0 ok", "go 1 ok", "go 2 ok", "go 3 ok", "k", "release 1", "wait", "release 0", "release 2", "release 3", "k"}},
		{Lines: []string{"@ C19 lim 2", "go 0 panic 1", "go 1 panic 2", "release 0", "release 1", "k", "go 2 ok", "go 3 ok", "go 4 ok", "k", "release 3", "release 2", "wait", "release 4", "k"}},
		{Lines: []string{"@ C19 lim -2", "wait", "go 0 panic 5", "wait", "release 0", "wait", "k"}},
		// panic values of every dynamic type, then further submissions get all n slots
		{Lines: []string{"@ C19 lim 2", "go 0 panic nil", "go 1 panic err:4", "go 2 panic cus:9", "release 1", "release 0", "release 2", "k", "go 3 ok", "go 4 ok", "go 5 panic 0", "k", "release 3", "release 4", "release 5", "wait", "k"}},
		// every unusual dynamic type once (typed nils, run-time errors, …)
		{Lines: []string{"@ C19 lim 3", "go 0 panic tnp", "go 1 panic nmap", "go 2 panic nslice", "release 0", "release 1", "release 2", "go 3 panic nfunc", "go 4 panic nchan", "go 5 panic wrapnil", "release 5", "release 4", "release 3", "go 6 panic rtmap", "go 7 panic rtidx", "go 8 panic rtnil", "release 6", "release 7", "release 8", "k", "go 9 ok", "go 10 ok", "go 11 ok", "go 12 ok", "k", "release 9", "release 10", "release 11", "release 12", "wait", "k"}},
		// Wait(d) expiring while all slots are taken, then more submissions: they must block
		{Lines: []string{"@ C19 lim 2", "go 0 ok", "go 1 ok", "waitt 2", "go 2 ok", "k", "waitt 1", "waitt 3", "go 3 ok", "release 0", "k", "release 1", "release 2", "release 3", "wait", "k", "go 4 ok", "waitt 2", "release 4", "waitt 2", "k"}},
		{Lines: []string{"@ C19 lim 1", "waitt 1", "go 0 panic 4", "release 0", "waitt 2", "go 1 ok", "go 2 ok", "release 1", "release 2", "wait", "waitt 1", "k"}},
		{Lines: []string{"@ C19 lim 0", "go 0 ok", "go 1 ok", "waitt 1", "go 2 ok", "waitt 1", "go 3 ok", "go 4 ok", "k", "release 2", "release 0", "k", "release 1", "release 3", "release 4", "wait", "k"}},
		// handler replaced after the limiter already ran something, between rounds and while
		// functions are inside: each value goes to the handler configured at ITS submission
		{Lines: []string{"@ C19 lim 2", "go 0 ok", "release 0", "wait", "sethandler 1", "go 1 panic 5", "release 1", "wait", "go 2 panic 6", "sethandler 2", "go 3 panic err:7", "release 3", "release 2", "sethandler 0", "go 4 panic nil", "sethandler 3", "release 4", "go 5 panic tnp", "go 6 panic 8", "go 7 panic 9", "release 5", "release 6", "release 7", "wait", "k"}},
		{Lines: []string{"@ C19 lim 1", "sethandler 2", "go 0 panic 1", "release 0", "sethandler 2", "go 1 panic 2", "sethandler 1", "release 1", "go 2 panic 3", "go 3 panic 4", "release 2", "release 3", "wait", "k"}},
		// several Limiters at once, driven alternately (each judged on its own)
		{Lines: []string{"@ C19 multi 1 2", "0 go 0 ok", "1 go 0 panic 5", "1 go 1 ok", "0 go 1 panic nil", "1 go 2 ok", "0 k", "1 k", "1 sethandler 2", "0 release 0", "1 release 0", "0 wait", "1 release 2", "0 release 1", "1 go 3 panic err:3", "1 wait", "1 release 1", "1 release 3", "0 wait", "0 k", "1 k"}, Tag: "multi"},
		{Lines: []string{"@ C19 multi 0 1 1", "1 go 0 ok", "2 go 0 ok", "1 go 1 ok", "2 go 1 panic 7", "0 go 0 ok", "0 go 1 ok", "0 go 2 ok", "0 go 3 ok", "2 release 0", "1 release 0", "0 release 1", "2 release 1", "1 release 1", "0 release 0", "0 release 2", "0 release 3", "0 wait", "1 wait", "2 wait", "0 k", "1 k", "2 k"}, Tag: "multi"},
		// Limiter reuse over several Go/Wait rounds: every Wait must wait for ITS round
		// (an idle signal cached from an earlier round must not satisfy a later Wait)
		{Lines: []string{"@ C19 lim 1", "go 0 ok", "release 0", "wait", "go 1 ok", "wait", "release 1", "wait", "go 2 panic nil", "wait", "wait", "release 2", "go 3 ok", "go 4 ok", "release 3", "wait", "release 4", "k"}},
		{Lines: []string{"@ C19 lim 3", "wait", "go 0 ok", "go 1 ok", "wait", "release 0", "release 1", "wait", "go 2 ok", "wait", "release 2", "go 3 panic err:1", "wait", "release 3", "wait", "k"}},
		// ---- the ways a function can END (wave 8): after n functions that ended with panic(nil)
		// under GODEBUG=panicnil=1 / runtime.Goexit / a panic aborted by Goexit, n further
		// functions must be inside at once and Wait() must return
		{Lines: []string{"@ C19 lim 1", "go 0 pnil", "go 1 ok", "release 0", "k", "release 1", "wait", "k"}},
		{Lines: []string{"@ C19 lim 1", "go 0 goexit", "release 0", "go 1 ok", "k", "release 1", "wait", "k"}},
		{Lines: []string{"@ C19 lim 2", "go 0 pnil", "go 1 goexit", "release 0", "release 1", "k", "go 2 ok", "go 3 ok", "go 4 pgoexit 5", "k", "release 2", "release 4", "release 3", "wait", "k", "go 5 repanic 6", "go 6 defpanic err:2", "release 5", "release 6", "go 7 selfrec", "release 7", "wait", "k"}},
		{Lines: []string{"@ C19 lim 0", "go 0 goexit", "go 1 goexit", "go 2 goexit", "wait", "release 1", "release 0", "release 2", "go 3 ok", "go 4 ok", "go 5 ok", "go 6 pnil", "k", "release 3", "release 6", "release 4", "release 5", "wait", "k"}},
		// panic(nil) under both GODEBUG settings in one script, also as the value of a re-panic;
		// handler replaced in between
		{Lines: []string{"@ C19 lim 2", "go 0 panic nil", "go 1 pnil", "release 1", "release 0", "sethandler 1", "go 2 pnil", "go 3 repanic nil", "release 2", "release 3", "go 4 defpanic nil", "go 5 pgoexit nil", "release 5", "release 4", "wait", "k", "go 6 ok", "go 7 ok", "k", "release 6", "release 7", "wait", "k"}},
		{Lines: []string{"@ C19 multi 1 2", "0 go 0 pnil", "1 go 0 goexit", "1 go 1 pnil", "0 release 0", "0 go 1 ok", "1 release 0", "1 release 1", "1 go 2 ok", "1 go 3 ok", "0 k", "1 k", "0 release 1", "1 release 2", "1 release 3", "0 wait", "1 wait", "0 k", "1 k"}, Tag: "multi"},
	}
}

// genValue: a panic value token (14 dynamic types).
func genValue(r *core.Rand) string {
	switch r.Pick(40, 10, 10, 40) {
	case 1:
		return fmt.Sprintf("err:%d", r.Range(0, 99))
	case 2:
		return fmt.Sprintf("cus:%d", r.Range(0, 99))
	case 3:
		return specialVals[r.Intn(len(specialVals))]
	}
	return strconv.Itoa(r.Range(1, 99))
}

// genEnding: how a scripted function ends (the tokens after `go <id>`).
func genEnding(r *core.Rand) string {
	switch r.Pick(52, 24, 7, 7, 3, 3, 2, 2) {
	case 1:
		return "panic " + genValue(r)
	case 2:
		return "pnil"
	case 3:
		return "goexit"
	case 4:
		return "repanic " + genValue(r)
	case 5:
		return "defpanic " + genValue(r)
	case 6:
		return "selfrec"
	case 7:
		return "pgoexit " + genValue(r)
	}
	return "ok"
}

// genStorm: the mechanism of the "endings" class. Every slot is used once by a function that
// ends in one of the unusual ways; then n blocking functions must all get inside, one more
// must block and get the first slot that is returned; Wait() must return at the end.
func genStorm(r *core.Rand) core.Case {
	limit := []int{1, 1, 2, 2, 3, 4, 0, -1}[r.Intn(8)]
	n := limit
	if n < 1 {
		n = 3
	}
	lines := []string{fmt.Sprintf("@ C19 lim %d", limit)}
	next := 0
	for round := r.Range(1, 2); round > 0; round-- {
		same := ""
		if r.Chance(60) {
			same = []string{"pnil", "goexit", "pgoexit 7", "pnil", "goexit", "repanic nil", "defpanic 3", "selfrec", "panic nil"}[r.Intn(9)]
		}
		var ids []int
		for i := 0; i < n; i++ {
			e := same
			if e == "" {
				e = genEnding(r)
			}
			lines = append(lines, fmt.Sprintf("go %d %s", next, e))
			ids = append(ids, next)
			next++
		}
		waited := r.Chance(40)
		if waited {
			lines = append(lines, "wait")
		}
		for len(ids) > 0 {
			j := r.Intn(len(ids))
			lines = append(lines, fmt.Sprintf("release %d", ids[j]))
			ids = append(ids[:j], ids[j+1:]...)
		}
		if r.Chance(50) {
			lines = append(lines, "k")
		}
		// n blocking functions get inside, one more blocks
		for i := 0; i <= n; i++ {
			lines = append(lines, fmt.Sprintf("go %d ok", next))
			ids = append(ids, next)
			next++
		}
		lines = append(lines, "k")
		blocked := ids[n]
		ids = ids[:n]
		j := r.Intn(len(ids))
		lines = append(lines, fmt.Sprintf("release %d", ids[j]))
		ids = append(ids[:j], ids[j+1:]...)
		ids = append(ids, blocked)
		for len(ids) > 0 {
			j := r.Intn(len(ids))
			lines = append(lines, fmt.Sprintf("release %d", ids[j]))
			ids = append(ids[:j], ids[j+1:]...)
		}
		lines = append(lines, "wait", "k")
	}
	return core.Case{Lines: lines, Tag: "endings"}
}

// gen: mostly-valid scripts biased towards the mechanism: fill the channel, submit
// beyond the limit, release in arbitrary order (panicking and returning), submit
// after panics, Wait at quiescent points of the submitter.
// genMulti: 2–3 Limiters (different limits) driven alternately by one script; no timed waits
// (their helper goroutines are looked for process-wide).
func genMulti(r *core.Rand) core.Case {
	k := r.Range(2, 3)
	type lim struct {
		n, next          int
		holding, pending []int
		waiting          int
	}
	hdr := "@ C19 multi"
	ls := make([]*lim, k)
	for i := range ls {
		limit := []int{1, 1, 2, 2, 3, -1, 0}[r.Intn(7)]
		n := limit
		if n < 1 {
			n = 3
		}
		ls[i] = &lim{n: n}
		hdr += " " + strconv.Itoa(limit)
	}
	lines := []string{hdr}
	release := func(i int, l *lim) {
		j := r.Intn(len(l.holding))
		lines = append(lines, fmt.Sprintf("%d release %d", i, l.holding[j]))
		l.holding = append(l.holding[:j], l.holding[j+1:]...)
		if len(l.pending) > 0 {
			l.holding = append(l.holding, l.pending[0])
			l.pending = l.pending[1:]
		}
		if len(l.holding) == 0 {
			l.waiting = 0
		}
	}
	for step := r.Range(10, 30); step > 0; step-- {
		i := r.Intn(k)
		l := ls[i]
		switch r.Pick(48, 32, 8, 6, 6) {
		case 0:
			if l.waiting > 0 || len(l.pending) >= 2 {
				continue
			}
			lines = append(lines, fmt.Sprintf("%d go %d %s", i, l.next, genEnding(r)))
			if len(l.pending) == 0 && len(l.holding) < l.n {
				l.holding = append(l.holding, l.next)
			} else {
				l.pending = append(l.pending, l.next)
			}
			l.next++
		case 1:
			if len(l.holding) > 0 {
				release(i, l)
			}
		case 2:
			if len(l.pending) == 0 && l.waiting < 2 {
				lines = append(lines, fmt.Sprintf("%d wait", i))
				if len(l.holding) > 0 {
					l.waiting++
				}
			}
		case 3:
			lines = append(lines, fmt.Sprintf("%d k", i))
		case 4:
			if len(l.pending) == 0 {
				lines = append(lines, fmt.Sprintf("%d sethandler %d", i, r.Range(0, 3)))
			}
		}
	}
	for i, l := range ls {
		for len(l.holding) > 0 {
			release(i, l)
		}
	}
	for i := range ls {
		lines = append(lines, fmt.Sprintf("%d wait", i), fmt.Sprintf("%d k", i))
	}
	return core.Case{Lines: lines, Tag: "multi"}
}

func gen(r *core.Rand, tier string) core.Case {
	if r.Chance(12) {
		return genMulti(r)
	}
	if r.Chance(12) {
		return genStorm(r)
	}
	limit := []int{1, 1, 2, 2, 2, 3, 3, 4, 5}[r.Intn(9)]
	if r.Chance(15) {
		limit = r.Range(-2, 0)
	}
	n := limit
	if n < 1 {
		n = 3
	}
	lines := []string{fmt.Sprintf("@ C19 lim %d", limit)}
	next := 0
	var holding, pending []int
	waiting := 0
	steps := r.Range(6, 22)
	for i := 0; i < steps; i++ {
		canGo := waiting == 0 && len(pending) < 3
		canRel := len(holding) > 0
		canWait := len(pending) == 0 && waiting < 2
		if r.Chance(6) && len(pending) == 0 {
			// replace the handler between / during rounds (class: order of configuration vs use)
			lines = append(lines, fmt.Sprintf("sethandler %d", r.Range(0, 3)))
			continue
		}
		if r.Chance(7) && (n >= 2 || len(holding) == 0) {
			// Wait(d) that expires while functions are blocked (or returns at once when
			// idle); the ops after it check that the slots are as before.
			// Not with limit 1 while a function is inside: there the WaitGroup counter
			// passes through zero between the Done of one task and the Add of a queued
			// submission while the helper goroutine of the expired Wait(d) is still inside
			// l.w.Wait() — sync.WaitGroup then panics in that helper ("WaitGroup is reused
			// before previous Wait has returned") and the process dies. That crash of the
			// real code is outside this property (review §observations).
			lines = append(lines, fmt.Sprintf("waitt %d", []int{1, 3, 10}[r.Intn(3)]))
			continue
		}
		switch r.Pick(50, 32, 9, 9) {
		case 0:
			if !canGo {
				continue
			}
			lines = append(lines, fmt.Sprintf("go %d %s", next, genEnding(r)))
			if len(pending) == 0 && len(holding) < n {
				holding = append(holding, next)
			} else {
				pending = append(pending, next)
			}
			next++
		case 1:
			if !canRel {
				continue
			}
			j := r.Intn(len(holding))
			lines = append(lines, fmt.Sprintf("release %d", holding[j]))
			holding = append(holding[:j], holding[j+1:]...)
			if len(pending) > 0 {
				holding = append(holding, pending[0])
				pending = pending[1:]
			}
			if len(holding) == 0 {
				waiting = 0
			}
		case 2:
			if !canWait {
				continue
			}
			lines = append(lines, "wait")
			if len(holding) > 0 {
				waiting++
			}
		case 3:
			lines = append(lines, "k")
		}
	}
	// drain: release everything, then Wait and look at the channel
	for len(holding) > 0 {
		j := r.Intn(len(holding))
		lines = append(lines, fmt.Sprintf("release %d", holding[j]))
		holding = append(holding[:j], holding[j+1:]...)
		if len(pending) > 0 {
			holding = append(holding, pending[0])
			pending = pending[1:]
		}
	}
	lines = append(lines, "wait", "k")
	return core.Case{Lines: lines, Tag: "script"}
}

func classify(c core.Case, out []string) []string {
	var ls []string
	hdr := core.Toks(c.Lines[0])
	if isMulti(c) {
		ls = append(ls, fmt.Sprintf("multi-limiters=%d", len(hdr)-3))
		cs, os := splitMulti(c, out)
		for i := range cs {
			for _, l := range classify(cs[i], os[i]) {
				if !strings.HasPrefix(l, "limit=") {
					ls = append(ls, l)
				}
			}
		}
		return ls
	}
	ls = append(ls, "limit="+hdr[3])
	kinds := map[string]string{} // task id -> scripted ending
	for i, l := range c.Lines[1:] {
		o := out[i+1]
		t := core.Toks(l)
		op := t[0]
		if op == "go" && len(t) >= 3 && o != "bad-op" {
			kinds[t[1]] = t[2]
			if t[2] == "panic" && len(t) == 4 && t[3] == "nil" {
				kinds[t[1]] = "panic-nil(panicnil=0)"
			}
		}
		if op == "release" && len(t) == 2 && strings.Contains(o, "finish") {
			ls = append(ls, "end-"+kinds[t[1]])
		}
		switch {
		case op == "go" && o == "blocked":
			ls = append(ls, "go-blocked")
		case op == "go" && o == "queued":
			ls = append(ls, "go-queued")
		case op == "go":
			ls = append(ls, "go-started")
		case op == "release" && strings.Contains(o, "handler"):
			ls = append(ls, "release-panic")
		case op == "release":
			ls = append(ls, "release-ok")
		case op == "waitt":
			ls = append(ls, "timed-wait")
		case op == "sethandler":
			ls = append(ls, "set-handler")
		case op == "wait" && o == "waiting":
			ls = append(ls, "wait-blocks")
		case op == "wait":
			ls = append(ls, "wait-returns")
		}
		if strings.Contains(o, "start") && op == "release" {
			ls = append(ls, "token-handed-over")
		}
		if strings.Contains(o, "inconclusive") {
			ls = append(ls, "inconclusive-timeout")
		}
	}
	return ls
}
