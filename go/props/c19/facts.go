package c19

// The C19 facts extractor: statement order in Limiter.add / done / Go, the deferred
// structure of Recover and the constants of NewLimiter, rendered as token lists into
// lean/Golib/Gen/FactsC19.lean. Props/C19.lean compares them (by `decide`) with the
// order the hand-written machine `C19Lim` executes; a reordering in the source
// breaks the obligation. Statements are rendered structurally (callee names, channel
// operations, control structure); arguments of calls that only format or print text
// are not rendered, so edits to messages do not disturb the facts.

import (
	"bytes"
	"fmt"
	"go/ast"
	"go/parser"
	"go/printer"
	"go/token"
	"path/filepath"
	"strings"
)

type renderer struct {
	fset *token.FileSet
}

func (r *renderer) src(n ast.Node) string {
	var b bytes.Buffer
	_ = printer.Fprint(&b, r.fset, n)
	s := b.String()
	s = strings.Join(strings.Fields(s), "")
	return s
}

// calls whose arguments matter for the model
func significantCallee(c string) bool {
	switch c {
	case "panicFn", "cleanup", "fn", "recover", "l.add", "l.done", "l.w.Add", "l.w.Done", "l.w.Wait", "Recover", "len", "make",
		"stack", "runtime.Callers", "runtime.CallersFrames": // the traceback helper of the library's own handler LogPanic
		return true
	}
	return false
}

func (r *renderer) expr(e ast.Expr) string {
	switch e := e.(type) {
	case *ast.CallExpr:
		callee := r.src(e.Fun)
		if significantCallee(callee) {
			var as []string
			for _, a := range e.Args {
				as = append(as, r.expr(a))
			}
			return callee + "(" + strings.Join(as, ",") + ")"
		}
		return callee + "(…)"
	case *ast.UnaryExpr:
		if e.Op == token.ARROW {
			return "recv " + r.src(e.X)
		}
		return e.Op.String() + r.expr(e.X)
	case *ast.BinaryExpr:
		return r.expr(e.X) + e.Op.String() + r.expr(e.Y)
	case *ast.ParenExpr:
		return "(" + r.expr(e.X) + ")"
	case *ast.FuncLit:
		return "func{" + strings.Join(r.block(e.Body.List), "; ") + "}"
	default:
		return r.src(e)
	}
}

func (r *renderer) stmt(s ast.Stmt) string {
	switch s := s.(type) {
	case *ast.SendStmt:
		return "send " + r.src(s.Chan)
	case *ast.ExprStmt:
		return r.expr(s.X)
	case *ast.GoStmt:
		return "go " + r.expr(s.Call)
	case *ast.DeferStmt:
		if fl, ok := s.Call.Fun.(*ast.FuncLit); ok {
			return "defer{" + strings.Join(r.block(fl.Body.List), "; ") + "}"
		}
		return "defer " + r.expr(s.Call)
	case *ast.ReturnStmt:
		var rs []string
		for _, x := range s.Results {
			rs = append(rs, r.expr(x))
		}
		return strings.TrimSpace("return " + strings.Join(rs, ","))
	case *ast.AssignStmt:
		var ls, rs []string
		for _, x := range s.Lhs {
			ls = append(ls, r.expr(x))
		}
		for _, x := range s.Rhs {
			rs = append(rs, r.expr(x))
		}
		return strings.Join(ls, ",") + s.Tok.String() + strings.Join(rs, ",")
	case *ast.DeclStmt:
		if gd, ok := s.Decl.(*ast.GenDecl); ok {
			var names []string
			for _, sp := range gd.Specs {
				if vs, ok := sp.(*ast.ValueSpec); ok {
					for _, n := range vs.Names {
						names = append(names, n.Name)
					}
				}
			}
			return "var " + strings.Join(names, ",")
		}
		return "decl"
	case *ast.IfStmt:
		out := "if("
		if s.Init != nil {
			out += r.stmt(s.Init) + ";"
		}
		out += r.expr(s.Cond) + "){" + strings.Join(r.block(s.Body.List), "; ") + "}"
		if s.Else != nil {
			switch e := s.Else.(type) {
			case *ast.BlockStmt:
				out += "else{" + strings.Join(r.block(e.List), "; ") + "}"
			default:
				out += "else " + r.stmt(e)
			}
		}
		return out
	case *ast.RangeStmt:
		k, v := "_", "_"
		if s.Key != nil {
			k = r.src(s.Key)
		}
		if s.Value != nil {
			v = r.src(s.Value)
		}
		return "range(" + k + "," + v + ":" + r.src(s.X) + "){" + strings.Join(r.block(s.Body.List), "; ") + "}"
	case *ast.ForStmt:
		return "for{" + strings.Join(r.block(s.Body.List), "; ") + "}"
	case *ast.BlockStmt:
		return "{" + strings.Join(r.block(s.List), "; ") + "}"
	case *ast.SelectStmt:
		var cs []string
		for _, c := range s.Body.List {
			cc, ok := c.(*ast.CommClause)
			if !ok {
				continue
			}
			head := "default"
			if cc.Comm != nil {
				head = "case " + r.stmt(cc.Comm)
			}
			cs = append(cs, head+":{"+strings.Join(r.block(cc.Body), "; ")+"}")
		}
		return "select{" + strings.Join(cs, " ") + "}"
	default:
		return fmt.Sprintf("stmt:%T", s)
	}
}

func (r *renderer) block(list []ast.Stmt) []string {
	var out []string
	for _, s := range list {
		out = append(out, r.stmt(s))
	}
	return out
}

func leanList(xs []string) string {
	var q []string
	for _, x := range xs {
		q = append(q, fmt.Sprintf("%q", x))
	}
	return "[" + strings.Join(q, ", ") + "]"
}

// Facts renders lean/Golib/Gen/FactsC19.lean.
func Facts(repo string) (string, error) {
	fset := token.NewFileSet()
	path := filepath.Join(repo, "goz", "goz.go")
	f, err := parser.ParseFile(fset, path, nil, parser.SkipObjectResolution)
	if err != nil {
		return "", err
	}
	r := &renderer{fset: fset}
	bodies := map[string][]string{}
	recvName := map[string]string{}
	for _, d := range f.Decls {
		fd, ok := d.(*ast.FuncDecl)
		if !ok || fd.Body == nil {
			continue
		}
		name := fd.Name.Name
		if fd.Recv != nil && len(fd.Recv.List) == 1 {
			tn := r.src(fd.Recv.List[0].Type)
			if tn != "*Limiter" {
				continue
			}
			if len(fd.Recv.List[0].Names) == 1 {
				recvName[name] = fd.Recv.List[0].Names[0].Name
			}
			name = "Limiter." + name
		}
		bodies[name] = r.block(fd.Body.List)
	}
	for _, need := range []string{"NewLimiter", "Limiter.Go", "Limiter.add", "Limiter.done", "Limiter.Wait", "Limiter.SetPanicHandler", "Recover", "stack", "LogPanic"} {
		if _, ok := bodies[need]; !ok {
			return "", fmt.Errorf("function %s not found in goz/goz.go", need)
		}
	}
	for m, rn := range recvName {
		if rn != "l" {
			return "", fmt.Errorf("receiver of Limiter.%s is named %q (the renderer expects l)", m, rn)
		}
	}
	// struct fields of Limiter
	var fields []string
	for _, d := range f.Decls {
		gd, ok := d.(*ast.GenDecl)
		if !ok {
			continue
		}
		for _, sp := range gd.Specs {
			ts, ok := sp.(*ast.TypeSpec)
			if !ok || ts.Name.Name != "Limiter" {
				continue
			}
			if st, ok := ts.Type.(*ast.StructType); ok {
				for _, fl := range st.Fields.List {
					for _, n := range fl.Names {
						fields = append(fields, n.Name+":"+r.src(fl.Type))
					}
				}
			}
		}
	}
	var b strings.Builder
	b.WriteString("-- REGENERATED on every run by the C19 extractor (go/props/c19/facts.go) from goz/goz.go\n")
	b.WriteString("-- of the tree under verification; do not edit.\n")
	b.WriteString("namespace Golib.Gen.C19\n\n")
	b.WriteString("def extractorOK : Bool := true\n\n")
	fmt.Fprintf(&b, "def limiterFields : List String := %s\n\n", leanList(fields))
	for _, fn := range []struct{ lean, src string }{
		{"newLimiterBody", "NewLimiter"}, {"goBody", "Limiter.Go"}, {"addBody", "Limiter.add"},
		{"doneBody", "Limiter.done"}, {"recoverBody", "Recover"}, {"setHandlerBody", "Limiter.SetPanicHandler"},
	} {
		fmt.Fprintf(&b, "def %s : List String := %s\n\n", fn.lean, leanList(bodies[fn.src]))
	}
	// Wait: only the untimed path matters (last statement)
	w := bodies["Limiter.Wait"]
	fmt.Fprintf(&b, "def waitUntimedTail : String := %q\n\n", w[len(w)-1])
	// Wait(d): everything before the untimed tail (the machine's `waitTimed` step claims
	// that it touches neither the channel l.c nor the WaitGroup counter)
	fmt.Fprintf(&b, "def waitTimedBody : List String := %s\n\n", leanList(w[:len(w)-1]))
	// the library's own handler LogPanic and the buffer handling at the head of its helper
	// stack (everything before the frame loop): a handler that panics runs before the cleanups
	st := bodies["stack"]
	head := st
	for i, x := range st {
		if strings.HasPrefix(x, "for{") {
			head = st[:i]
			break
		}
	}
	fmt.Fprintf(&b, "def stackHead : List String := %s\n\n", leanList(head))
	fmt.Fprintf(&b, "def logPanicBody : List String := %s\n\n", leanList(bodies["LogPanic"]))
	b.WriteString("end Golib.Gen.C19\n")
	return b.String(), nil
}
