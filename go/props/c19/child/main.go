// Command child runs the parts of the C19 check that may take the whole process down, or
// that depend on the environment the process was STARTED with. It is built and run by the
// C19 Extra `child-process` (go/props/c19/childproc.go); the parent judges exit status,
// stderr and the `CHILD …` result lines.
//
//	-mode nohandler  Limiter WITHOUT a panic handler (Recover's default print path) and with
//	                 goz.LogPanic as handler; functions panic with values whose Error() /
//	                 String() methods themselves panic (nil-inner *os.PathError, typed-nil
//	                 pointer receivers, a wrapper around a nil error). The property: the panic
//	                 does not terminate the process and does not leak the slot — afterwards n
//	                 functions run simultaneously and Wait() returns.
//	-mode deflimit   prints the capacity NewLimiter gives for limits below 1 (the property: 3,
//	                 whatever GOMAXPROCS the process was started with).
//	-mode logpanic   -deep N: the configured handler is the library's OWN goz.LogPanic(logger, N),
//	                 with every logger shape the Logger interface accepts (pointer receiver,
//	                 value receiver, func type, typed-nil pointer whose method does not touch the
//	                 receiver). Functions panic with several values; the handler must not panic
//	                 itself (it runs inside Recover's deferred function BEFORE the cleanups: a
//	                 panicking handler kills the process / leaks slot and WaitGroup count), the
//	                 logger must be called once per panic, afterwards n functions must be inside
//	                 at once and Wait() must return. One process per depth (a dying process
//	                 names the combination it was running in its last `CHILD begin` line).
//	-mode endings    the ways a submitted function can end that depend on how the process was
//	                 STARTED: panic(nil) is run under the GODEBUG the parent gave this process
//	                 (unset = Go >= 1.21 semantics of this harness module, the handler sees a
//	                 *runtime.PanicNilError; GODEBUG=panicnil=1 = what a main module with
//	                 `go` < 1.21 — golib's own go.mod — gets: recover() returns nil), plus
//	                 runtime.Goexit, a panic aborted by Goexit in a deferred function, re-panics
//	                 in deferred functions. For each ending every slot is used once by such a
//	                 function; afterwards n functions must be inside at once and Wait() must
//	                 return (no slot, no WaitGroup count leaked); the number of handler calls
//	                 is printed.
package main

import (
	"errors"
	"flag"
	"fmt"
	"os"
	"reflect"
	"runtime"
	"sync/atomic"
	"time"

	"github.com/welllog/golib/goz"
)

type nilRecvErr struct{ msg string }

func (e *nilRecvErr) Error() string { return e.msg } // panics on a nil receiver

type nilRecvStringer struct{ s string }

func (e *nilRecvStringer) String() string { return e.s } // panics on a nil receiver

type wrapErr struct{ inner error }

func (w wrapErr) Error() string { return "wrap: " + w.inner.Error() } // panics when inner is nil

type badStringer struct{}

func (badStringer) String() string { panic("String() panics") }

type quietLogger struct{ n atomic.Int64 }

func (l *quietLogger) Error(args ...any) { l.n.Add(1) }

func values() []struct {
	name string
	v    any
} {
	return []struct {
		name string
		v    any
	}{
		{"*os.PathError with nil Err", &os.PathError{Op: "open", Path: "x"}},
		{"typed-nil *nilRecvErr (error)", error((*nilRecvErr)(nil))},
		{"typed-nil *nilRecvStringer (Stringer)", (*nilRecvStringer)(nil)},
		{"wrapErr{nil}", wrapErr{}},
		{"badStringer", badStringer{}},
		{"errors.New", errors.New("plain")},
		{"int", 7},
	}
}

func chanCap(l *goz.Limiter) int {
	defer func() { _ = recover() }()
	return reflect.ValueOf(l).Elem().FieldByName("c").Cap()
}

// round: every value is thrown once; then n blocking functions must be inside at once
// (no slot leaked) and Wait() must return.
func round(kind string, limit int, l *goz.Limiter) {
	n := chanCap(l)
	for _, x := range values() {
		x := x
		l.Go(func() { panic(x.v) })
	}
	waitOrDie(kind, "Wait() after the panicking functions", func() { l.Wait() })
	var inside atomic.Int64
	release := make(chan struct{})
	for i := 0; i < n; i++ {
		l.Go(func() { inside.Add(1); <-release })
	}
	deadline := time.Now().Add(20 * time.Second)
	for inside.Load() < int64(n) && time.Now().Before(deadline) {
		time.Sleep(200 * time.Microsecond)
	}
	got := inside.Load()
	close(release)
	waitOrDie(kind, "Wait() after the blocking functions", func() { l.Wait() })
	fmt.Printf("CHILD nohandler kind=%s limit=%d cap=%d inside=%d\n", kind, limit, n, got)
}

// ---- logger shapes for goz.LogPanic
type ptrLogger struct{ n atomic.Int64 }

func (l *ptrLogger) Error(args ...any) { l.n.Add(1) }

type valLogger struct{ n *atomic.Int64 }

func (l valLogger) Error(args ...any) { l.n.Add(1) }

type funcLogger func(args ...any)

func (f funcLogger) Error(args ...any) { f(args...) }

var nilRecvCount atomic.Int64

type nilRecvLogger struct{ unused int }

func (l *nilRecvLogger) Error(args ...any) { nilRecvCount.Add(1) } // fine on a nil receiver

func loggers() []struct {
	name  string
	l     goz.Logger
	count func() int64
} {
	pl := &ptrLogger{}
	var vn, fn atomic.Int64
	return []struct {
		name  string
		l     goz.Logger
		count func() int64
	}{
		{"pointer-receiver", pl, func() int64 { return pl.n.Load() }},
		{"value-receiver", valLogger{&vn}, func() int64 { return vn.Load() }},
		{"func-type", funcLogger(func(args ...any) { fn.Add(1) }), func() int64 { return fn.Load() }},
		{"typed-nil-pointer", (*nilRecvLogger)(nil), func() int64 { return nilRecvCount.Load() }},
	}
}

func logPanicRounds(deep int) {
	vals := []any{7, errors.New("plain"), &os.PathError{Op: "open", Path: "x", Err: errors.New("inner")}, "text", (*int)(nil)}
	for _, limit := range []int{1, 2} {
		for _, lg := range loggers() {
			lg := lg
			before := lg.count()
			fmt.Printf("CHILD begin logpanic deep=%d logger=%s limit=%d\n", deep, lg.name, limit)
			l := goz.NewLimiter(limit).SetPanicHandler(goz.LogPanic(lg.l, deep))
			n := chanCap(l)
			what := fmt.Sprintf("LogPanic(%s, %d)", lg.name, deep)
			waitOrDie(what, "submitting the panicking functions", func() {
				for _, v := range vals {
					v := v
					l.Go(func() { panic(v) })
				}
			})
			waitOrDie(what, "Wait() after the panicking functions", func() { l.Wait() })
			var inside atomic.Int64
			release := make(chan struct{})
			waitOrDie(what, "submitting n blocking functions", func() {
				for i := 0; i < n; i++ {
					l.Go(func() { inside.Add(1); <-release })
				}
			})
			deadline := time.Now().Add(10 * time.Second)
			for inside.Load() < int64(n) && time.Now().Before(deadline) {
				time.Sleep(200 * time.Microsecond)
			}
			got := inside.Load()
			close(release)
			waitOrDie(what, "Wait() after the blocking functions", func() { l.Wait() })
			fmt.Printf("CHILD logpanic deep=%d logger=%s limit=%d cap=%d inside=%d logged=%d panics=%d\n", deep, lg.name, limit, n, got, lg.count()-before, len(vals))
		}
	}
}

// panicNilIsOld: does recover() return nil for panic(nil) in THIS process (GODEBUG panicnil=1)?
func panicNilIsOld() (old bool) {
	defer func() { old = recover() == nil }()
	var nothing any
	panic(nothing)
}

func endings() []struct {
	name string
	fn   func()
} {
	return []struct {
		name string
		fn   func()
	}{
		{"panic(nil)", func() { var nothing any; panic(nothing) }},
		{"Goexit", func() { runtime.Goexit() }},
		{"panic-then-Goexit-in-defer", func() { defer runtime.Goexit(); panic(5) }},
		{"repanic-in-defer", func() { defer func() { _ = recover(); panic(6) }(); panic("first") }},
		{"panic-in-defer-while-panicking", func() { defer func() { panic(7) }(); panic("first") }},
		{"repanic-nil-in-defer", func() { defer func() { _ = recover(); var nothing any; panic(nothing) }(); panic("first") }},
		{"recovered-by-itself", func() { defer func() { _ = recover() }(); panic("first") }},
	}
}

func endingsRound(limit int) {
	old := 0
	if panicNilIsOld() {
		old = 1
	}
	for _, e := range endings() {
		e := e
		var handled atomic.Int64
		l := goz.NewLimiter(limit).SetPanicHandler(func(any) { handled.Add(1) })
		n := chanCap(l)
		what := "ending " + e.name
		// every slot is used once by a function that ends this way
		waitOrDie(what, "submitting the functions", func() {
			for i := 0; i < n; i++ {
				l.Go(e.fn)
			}
		})
		waitOrDie(what, "Wait() after the functions have ended", func() { l.Wait() })
		var inside atomic.Int64
		release := make(chan struct{})
		submitted := make(chan struct{})
		go func() {
			for i := 0; i < n; i++ {
				l.Go(func() { inside.Add(1); <-release })
			}
			close(submitted)
		}()
		deadline := time.Now().Add(5 * time.Second)
		for inside.Load() < int64(n) && time.Now().Before(deadline) {
			time.Sleep(200 * time.Microsecond)
		}
		got := inside.Load()
		fmt.Printf("CHILD endings ending=%s panicnil=%d limit=%d cap=%d inside=%d handled=%d\n", e.name, old, limit, n, got, handled.Load())
		if got < int64(n) {
			// slots leaked: the submitter is stuck in Go(); leave it (the parent reports the line)
			close(release)
			continue
		}
		close(release)
		<-submitted
		waitOrDie(what, "Wait() after the blocking functions", func() { l.Wait() })
	}
}

func waitOrDie(kind, what string, f func()) {
	done := make(chan struct{})
	go func() { f(); close(done) }()
	select {
	case <-done:
	case <-time.After(20 * time.Second):
		buf := make([]byte, 1<<16)
		buf = buf[:runtime.Stack(buf, true)]
		fmt.Printf("CHILD stuck kind=%s what=%q\n", kind, what)
		fmt.Fprintf(os.Stderr, "stuck: %s\n%s\n", what, buf)
		os.Exit(4)
	}
}

func main() {
	mode := flag.String("mode", "nohandler", "nohandler | deflimit | endings | logpanic")
	deep := flag.Int("deep", 5, "traceback depth given to goz.LogPanic (mode logpanic)")
	flag.Parse()
	switch *mode {
	case "nohandler":
		// the default path prints to stdout: that is fine here, the parent only reads CHILD lines
		for _, limit := range []int{1, 3} {
			round("default-print", limit, goz.NewLimiter(limit))
			lg := &quietLogger{}
			round("LogPanic", limit, goz.NewLimiter(limit).SetPanicHandler(goz.LogPanic(lg, 4)))
			fmt.Printf("CHILD logpanic limit=%d logged=%d of %d\n", limit, lg.n.Load(), len(values()))
		}
		fmt.Println("CHILD done nohandler")
	case "deflimit":
		for _, limit := range []int{0, -1, -7} {
			fmt.Printf("CHILD deflimit limit=%d cap=%d gomaxprocs=%d\n", limit, chanCap(goz.NewLimiter(limit)), runtime.GOMAXPROCS(0))
		}
		fmt.Println("CHILD done deflimit")
	case "logpanic":
		logPanicRounds(*deep)
		fmt.Println("CHILD done logpanic")
	case "endings":
		for _, limit := range []int{1, 2} {
			endingsRound(limit)
		}
		fmt.Println("CHILD done endings")
	default:
		os.Exit(2)
	}
}
