// Command child runs the parts of the C19 check that may take the whole process down, or
// that depend on the environment the process was STARTED with. It is built and run by the
// C19 Extra `child-process` (go/props/c19/childproc.go); the parent judges exit status,
// stderr and the `CHILD …` result lines.
//
//	-mode nohandler  Limiter WITHOUT a panic handler (Recover's default print path) and with
//	                 goz.LogPanic as handler; functions panic with values whose Error() /
//	                 String() methods themselves panic (nil-inner *os.PathError, typed-nil
//	                 pointer receivers, a wrapper around a nil error). The property: the panic
//	                 does not terminate the process and does not leak the slot — afterwards n
//	                 functions run simultaneously and Wait() returns.
//	-mode deflimit   prints the capacity NewLimiter gives for limits below 1 (the property: 3,
//	                 whatever GOMAXPROCS the process was started with).
package main

import (
	"errors"
	"flag"
	"fmt"
	"os"
	"reflect"
	"runtime"
	"sync/atomic"
	"time"

	"github.com/welllog/golib/goz"
)

type nilRecvErr struct{ msg string }

func (e *nilRecvErr) Error() string { return e.msg } // panics on a nil receiver

type nilRecvStringer struct{ s string }

func (e *nilRecvStringer) String() string { return e.s } // panics on a nil receiver

type wrapErr struct{ inner error }

func (w wrapErr) Error() string { return "wrap: " + w.inner.Error() } // panics when inner is nil

type badStringer struct{}

func (badStringer) String() string { panic("String() panics") }

type quietLogger struct{ n atomic.Int64 }

func (l *quietLogger) Error(args ...any) { l.n.Add(1) }

func values() []struct {
	name string
	v    any
} {
	return []struct {
		name string
		v    any
	}{
		{"*os.PathError with nil Err", &os.PathError{Op: "open", Path: "x"}},
		{"typed-nil *nilRecvErr (error)", error((*nilRecvErr)(nil))},
		{"typed-nil *nilRecvStringer (Stringer)", (*nilRecvStringer)(nil)},
		{"wrapErr{nil}", wrapErr{}},
		{"badStringer", badStringer{}},
		{"errors.New", errors.New("plain")},
		{"int", 7},
	}
}

func chanCap(l *goz.Limiter) int {
	defer func() { _ = recover() }()
	return reflect.ValueOf(l).Elem().FieldByName("c").Cap()
}

// round: every value is thrown once; then n blocking functions must be inside at once
// (no slot leaked) and Wait() must return.
func round(kind string, limit int, l *goz.Limiter) {
	n := chanCap(l)
	for _, x := range values() {
		x := x
		l.Go(func() { panic(x.v) })
	}
	waitOrDie(kind, "Wait() after the panicking functions", func() { l.Wait() })
	var inside atomic.Int64
	release := make(chan struct{})
	for i := 0; i < n; i++ {
		l.Go(func() { inside.Add(1); <-release })
	}
	deadline := time.Now().Add(20 * time.Second)
	for inside.Load() < int64(n) && time.Now().Before(deadline) {
		time.Sleep(200 * time.Microsecond)
	}
	got := inside.Load()
	close(release)
	waitOrDie(kind, "Wait() after the blocking functions", func() { l.Wait() })
	fmt.Printf("CHILD nohandler kind=%s limit=%d cap=%d inside=%d\n", kind, limit, n, got)
}

func waitOrDie(kind, what string, f func()) {
	done := make(chan struct{})
	go func() { f(); close(done) }()
	select {
	case <-done:
	case <-time.After(20 * time.Second):
		buf := make([]byte, 1<<16)
		buf = buf[:runtime.Stack(buf, true)]
		fmt.Printf("CHILD stuck kind=%s what=%q\n", kind, what)
		fmt.Fprintf(os.Stderr, "stuck: %s\n%s\n", what, buf)
		os.Exit(4)
	}
}

func main() {
	mode := flag.String("mode", "nohandler", "nohandler | deflimit")
	flag.Parse()
	switch *mode {
	case "nohandler":
		// the default path prints to stdout: that is fine here, the parent only reads CHILD lines
		for _, limit := range []int{1, 3} {
			round("default-print", limit, goz.NewLimiter(limit))
			lg := &quietLogger{}
			round("LogPanic", limit, goz.NewLimiter(limit).SetPanicHandler(goz.LogPanic(lg, 4)))
			fmt.Printf("CHILD logpanic limit=%d logged=%d of %d\n", limit, lg.n.Load(), len(values()))
		}
		fmt.Println("CHILD done nohandler")
	case "deflimit":
		for _, limit := range []int{0, -1, -7} {
			fmt.Printf("CHILD deflimit limit=%d cap=%d gomaxprocs=%d\n", limit, chanCap(goz.NewLimiter(limit)), runtime.GOMAXPROCS(0))
		}
		fmt.Println("CHILD done deflimit")
	default:
		os.Exit(2)
	}
}
