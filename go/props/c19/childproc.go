package c19

// Extra `child-process`: the parts of the check that may kill the process running the real
// code, or that depend on the environment a process is STARTED with, run in a helper binary
// (go/props/c19/child), so that the check survives and can name what happened.
//   * Limiter without a handler / with goz.LogPanic, panic values whose Error()/String()
//     methods panic: the child must survive ("does not terminate the process"), n functions
//     must be inside at once afterwards ("does not leak its slot") — a dead child is the
//     failure `process-died` with its stderr as replay;
//   * NewLimiter(limit < 1) in children started with GOMAXPROCS=1, 2 and unset: capacity 3;
//   * the ways a function can end that depend on how the process was started: children
//     started with GODEBUG unset and with GODEBUG=panicnil=1 run panic(nil), runtime.Goexit,
//     a panic aborted by Goexit, re-panics in deferred functions through every slot; afterwards
//     n functions must be inside at once and Wait() must return.

import (
	"bytes"
	"crypto/sha256"
	"fmt"
	"os"
	"os/exec"
	"path/filepath"
	"strings"
	"time"

	"verifharness/internal/core"
)

func buildChild(ctx *core.Ctx) (string, error) {
	goDir := filepath.Join(ctx.VerifDir, "go")
	bdir := filepath.Join(goDir, ".build")
	if err := os.MkdirAll(bdir, 0o755); err != nil {
		return "", err
	}
	h := sha256.Sum256([]byte(ctx.Repo))
	key := fmt.Sprintf("%x", h[:5])
	base, err := os.ReadFile(filepath.Join(goDir, "go.mod"))
	if err != nil {
		return "", err
	}
	modfile := filepath.Join(bdir, "c19child-"+key+".mod")
	mtmp := fmt.Sprintf("%s.tmp.%d", modfile, os.Getpid())
	if err := os.WriteFile(mtmp, []byte(strings.Replace(string(base), "=> /repo", "=> "+ctx.Repo, 1)), 0o644); err != nil {
		return "", err
	}
	if err := os.Rename(mtmp, modfile); err != nil {
		return "", err
	}
	bin := filepath.Join(bdir, "c19child-"+key)
	// build under a private name, then rename: another check of the same copy may be
	// executing the installed binary right now (no "text file busy", no half-written file)
	tmp := fmt.Sprintf("%s.tmp.%d", bin, os.Getpid())
	defer os.Remove(tmp)
	cmd := exec.Command("go", "build", "-modfile="+modfile, "-o", tmp, "./props/c19/child")
	cmd.Dir = goDir
	cmd.Env = append(os.Environ(), "GOFLAGS=-mod=mod", "GOPROXY=off", "GOSUMDB=off", "GOTOOLCHAIN=local")
	out, err := cmd.CombinedOutput()
	if err != nil {
		return "", fmt.Errorf("go build ./props/c19/child: %v: %s", err, clip(string(out), 1500))
	}
	if err := os.Rename(tmp, bin); err != nil {
		return "", err
	}
	return bin, nil
}

func clip(s string, n int) string {
	if len(s) > n {
		return s[:n] + " …"
	}
	return s
}

func runChild(bin string, env []string, args ...string) (stdout, stderr string, exit int, err error) {
	cmd := exec.Command(bin, args...)
	cmd.Env = append(os.Environ(), env...)
	var so, se bytes.Buffer
	cmd.Stdout, cmd.Stderr = &so, &se
	if err = cmd.Start(); err != nil {
		return "", "", -1, err
	}
	done := make(chan error, 1)
	go func() { done <- cmd.Wait() }()
	select {
	case err = <-done:
	case <-time.After(90 * time.Second):
		_ = cmd.Process.Kill()
		<-done
		err = fmt.Errorf("child timed out after 90 s")
	}
	exit = cmd.ProcessState.ExitCode()
	return so.String(), se.String(), exit, err
}

// firstPanicLine: the `panic: …` line of a dead child's stderr.
func firstPanicLine(stderr string) string {
	var ps []string
	for _, l := range strings.Split(stderr, "\n") {
		if t := strings.TrimSpace(l); strings.HasPrefix(t, "panic: ") && len(ps) < 3 {
			ps = append(ps, t)
		}
	}
	if len(ps) == 0 {
		return "no panic line on stderr"
	}
	return clip(strings.Join(ps, " / "), 400)
}

func childLines(stdout, prefix string) []string {
	var ls []string
	for _, l := range strings.Split(stdout, "\n") {
		if strings.HasPrefix(l, prefix) {
			ls = append(ls, l)
		}
	}
	return ls
}

func childExtra(ctx *core.Ctx) (int, string, []core.ExtraFailure) {
	bin, err := buildChild(ctx)
	if err != nil {
		return 0, "child build failed", []core.ExtraFailure{{
			Failure: core.Failure{Key: "child-build", Desc: err.Error()}, Payload: map[string]any{"error": err.Error()}, NoInput: true}}
	}
	var fails []core.ExtraFailure
	evals := 0
	// ---- no handler / LogPanic, values whose Error()/String() panic
	so, se, exit, err := runChild(bin, nil, "-mode", "nohandler")
	rounds := childLines(so, "CHILD nohandler ")
	evals += len(rounds)
	switch {
	case len(childLines(so, "CHILD stuck ")) > 0:
		fails = append(fails, core.ExtraFailure{
			Failure: core.Failure{Key: "leak", Desc: fmt.Sprintf("child process (Limiter without handler / with LogPanic, panic values whose Error()/String() panic): %s never returned — slot or WaitGroup count leaked", strings.Join(childLines(so, "CHILD stuck "), "; "))},
			Payload: map[string]any{"stdout_child_lines": childLines(so, "CHILD "), "stderr": clip(se, 6000), "rerun": bin + " -mode nohandler"}})
	case err != nil || exit != 0 || len(childLines(so, "CHILD done nohandler")) == 0:
		fails = append(fails, core.ExtraFailure{
			Failure: core.Failure{Key: "process-died", Desc: fmt.Sprintf("the child process running Limiter.Go with functions that panic with values whose Error()/String() methods panic (no handler configured, then goz.LogPanic as handler) died: exit code %d (%v); the property says a panicking function does not terminate the process. Completed rounds: %v", exit, err, rounds)},
			Payload: map[string]any{"exit_code": exit, "stderr": clip(se, 6000), "stdout_child_lines": childLines(so, "CHILD "), "rerun": bin + " -mode nohandler"}})
	default:
		for _, l := range rounds {
			var kind string
			var limit, capn, inside int
			fmt.Sscanf(l, "CHILD nohandler kind=%s limit=%d cap=%d inside=%d", &kind, &limit, &capn, &inside)
			if inside != capn {
				fails = append(fails, core.ExtraFailure{
					Failure: core.Failure{Key: "leak", Desc: fmt.Sprintf("child process, %s, limit %d: after the panicking functions only %d of %d functions could be inside at once (slot leaked)", kind, limit, inside, capn)},
					Payload: map[string]any{"line": l, "rerun": bin + " -mode nohandler"}})
				break
			}
		}
	}
	// ---- default limit under different start environments
	for _, env := range [][]string{nil, {"GOMAXPROCS=1"}, {"GOMAXPROCS=2"}} {
		so, se, exit, err := runChild(bin, env, "-mode", "deflimit")
		ls := childLines(so, "CHILD deflimit ")
		evals += len(ls)
		if err != nil || exit != 0 || len(ls) == 0 {
			fails = append(fails, core.ExtraFailure{
				Failure: core.Failure{Key: "process-died", Desc: fmt.Sprintf("the child process (default limit, env %v) died: exit code %d (%v)", env, exit, err)},
				Payload: map[string]any{"stderr": clip(se, 4000), "env": env}})
			continue
		}
		for _, l := range ls {
			var limit, capn, gmp int
			fmt.Sscanf(l, "CHILD deflimit limit=%d cap=%d gomaxprocs=%d", &limit, &capn, &gmp)
			if capn != 3 {
				fails = append(fails, core.ExtraFailure{
					Failure: core.Failure{Key: "default-limit", Desc: fmt.Sprintf("in a process started with %v (GOMAXPROCS=%d) NewLimiter(%d) has capacity %d; the property says a limit below 1 falls back to 3", env, gmp, limit, capn)},
					Payload: map[string]any{"env": env, "line": l, "rerun": strings.Join(env, " ") + " " + bin + " -mode deflimit"}})
				break
			}
		}
	}
	// ---- the library's own handler goz.LogPanic(logger, deep): every depth, every logger shape.
	// A handler that panics runs inside Recover's deferred function before the cleanups: the
	// process dies (or slot and WaitGroup count leak). A user-supplied handler that panics is
	// the caller's fault (outside the property); the library's own LogPanic must not.
	nLog := 0
	negNote := ""
	for _, deep := range []int{0, 1, 5, 31, 32, 33, 64, 1000, -1, -5} {
		so, se, exit, err := runChild(bin, nil, "-mode", "logpanic", "-deep", fmt.Sprint(deep))
		ls := childLines(so, "CHILD logpanic ")
		begins := childLines(so, "CHILD begin logpanic ")
		rerun := fmt.Sprintf("%s -mode logpanic -deep %d", bin, deep)
		last := ""
		if len(begins) > 0 {
			last = strings.TrimPrefix(begins[len(begins)-1], "CHILD begin logpanic ")
		}
		if deep < 0 {
			// a NEGATIVE frame count is a misuse of LogPanic (like make([]T, -1)): recorded, not judged
			if err != nil || exit != 0 {
				negNote += fmt.Sprintf(" LogPanic(l, %d): the handler panics (%s), process exit code %d;", deep, firstPanicLine(se), exit)
			} else {
				negNote += fmt.Sprintf(" LogPanic(l, %d): survived;", deep)
			}
			continue
		}
		evals += len(ls)
		nLog += len(ls)
		switch {
		case len(childLines(so, "CHILD stuck ")) > 0:
			fails = append(fails, core.ExtraFailure{
				Failure: core.Failure{Key: "leak", Desc: fmt.Sprintf("child process, handler = goz.LogPanic(logger, %d) [%s]: %s never returned — slot or WaitGroup count leaked (the handler panicked inside Recover's deferred function before the cleanups?)", deep, last, strings.Join(childLines(so, "CHILD stuck "), "; "))},
				Payload: map[string]any{"deep": deep, "combination": last, "stdout_child_lines": childLines(so, "CHILD "), "stderr": clip(se, 6000), "rerun": rerun}})
		case err != nil || exit != 0 || len(childLines(so, "CHILD done logpanic")) == 0:
			fails = append(fails, core.ExtraFailure{
				Failure: core.Failure{Key: "process-died", Desc: fmt.Sprintf("Limiter with the library's own handler goz.LogPanic(logger, %d) [%s]: a submitted function panicked and the child process died: exit code %d (%v), %s; the property says a panicking function does not terminate the process and its value reaches the configured handler. Completed combinations: %d", deep, last, exit, err, firstPanicLine(se), len(ls))},
				Payload: map[string]any{"deep": deep, "combination": last, "exit_code": exit, "stderr": clip(se, 6000), "stdout_child_lines": childLines(so, "CHILD "), "rerun": rerun}})
		default:
			for _, l := range ls {
				var d, limit, capn, inside, logged, panics int
				var lname string
				fmt.Sscanf(l, "CHILD logpanic deep=%d logger=%s limit=%d cap=%d inside=%d logged=%d panics=%d", &d, &lname, &limit, &capn, &inside, &logged, &panics)
				if inside != capn {
					fails = append(fails, core.ExtraFailure{
						Failure: core.Failure{Key: "leak", Desc: fmt.Sprintf("child process, handler = goz.LogPanic(%s logger, %d), limit %d: after %d panicking functions only %d of %d functions could be inside at once (slot leaked)", lname, deep, limit, panics, inside, capn)},
						Payload: map[string]any{"line": l, "rerun": rerun}})
					break
				}
				if logged != panics {
					fails = append(fails, core.ExtraFailure{
						Failure: core.Failure{Key: "handler", Desc: fmt.Sprintf("child process, handler = goz.LogPanic(%s logger, %d), limit %d: %d functions panicked, the logger was called %d times (the panic value must reach the configured handler once per panic)", lname, deep, limit, panics, logged)},
						Payload: map[string]any{"line": l, "rerun": rerun}})
					break
				}
			}
		}
		if len(fails) > 0 {
			break
		}
	}
	// ---- endings that depend on the GODEBUG the process was started with
	nEndings := 0
	for _, env := range [][]string{{"GODEBUG="}, {"GODEBUG=panicnil=1"}} {
		so, se, exit, err := runChild(bin, env, "-mode", "endings")
		ls := childLines(so, "CHILD endings ")
		evals += len(ls)
		nEndings += len(ls)
		rerun := strings.Join(env, " ") + " " + bin + " -mode endings"
		var firstBad *core.ExtraFailure
		for _, l := range ls {
			f := map[string]string{}
			for _, kv := range strings.Fields(strings.TrimPrefix(l, "CHILD endings ")) {
				if k, v, ok := strings.Cut(kv, "="); ok {
					f[k] = v
				}
			}
			var old, limit, capn, inside, handled int
			fmt.Sscan(f["panicnil"], &old)
			fmt.Sscan(f["limit"], &limit)
			fmt.Sscan(f["cap"], &capn)
			fmt.Sscan(f["inside"], &inside)
			fmt.Sscan(f["handled"], &handled)
			wantOld := 0
			if len(env) > 0 && strings.Contains(env[0], "panicnil=1") {
				wantOld = 1
			}
			// handler calls: once per function whose panic value recover() reports
			wantHandled := -1
			switch f["ending"] {
			case "panic(nil)", "repanic-nil-in-defer":
				wantHandled = capn * (1 - old)
			case "Goexit", "panic-then-Goexit-in-defer", "recovered-by-itself":
				wantHandled = 0
			case "repanic-in-defer", "panic-in-defer-while-panicking":
				wantHandled = capn
			}
			switch {
			case old != wantOld:
				firstBad = &core.ExtraFailure{
					Failure: core.Failure{Key: "child-env", Desc: fmt.Sprintf("child started with %v reports panicnil=%d: the harness could not set the nil-panic semantics of the child process", env, old)},
					Payload: map[string]any{"env": env, "line": l, "rerun": rerun}, NoInput: true}
			case inside != capn:
				key := "leak"
				firstBad = &core.ExtraFailure{
					Failure: core.Failure{Key: key, Desc: fmt.Sprintf("child process started with %v (panic(nil): recover() returns %s), Limiter(limit=%d): every slot was used once by a function ending with %s; afterwards only %d of %d functions could be inside at once (slot leaked)", env, map[int]string{0: "*runtime.PanicNilError", 1: "nil"}[old], limit, f["ending"], inside, capn)},
					Payload: map[string]any{"env": env, "line": l, "stderr": clip(se, 3000), "rerun": rerun}}
			case wantHandled >= 0 && handled != wantHandled:
				firstBad = &core.ExtraFailure{
					Failure: core.Failure{Key: "handler", Desc: fmt.Sprintf("child process started with %v, Limiter(limit=%d): %d functions ended with %s; the handler was called %d times, expected %d (once per panic whose value recover() reports)", env, limit, capn, f["ending"], handled, wantHandled)},
					Payload: map[string]any{"env": env, "line": l, "rerun": rerun}}
			}
			if firstBad != nil {
				break
			}
		}
		switch {
		case firstBad != nil:
			fails = append(fails, *firstBad)
		case len(childLines(so, "CHILD stuck ")) > 0:
			fails = append(fails, core.ExtraFailure{
				Failure: core.Failure{Key: "leak", Desc: fmt.Sprintf("child process started with %v: %s never returned — slot or WaitGroup count leaked", env, strings.Join(childLines(so, "CHILD stuck "), "; "))},
				Payload: map[string]any{"env": env, "stdout_child_lines": childLines(so, "CHILD "), "stderr": clip(se, 6000), "rerun": rerun}})
		case err != nil || exit != 0 || len(childLines(so, "CHILD done endings")) == 0:
			fails = append(fails, core.ExtraFailure{
				Failure: core.Failure{Key: "process-died", Desc: fmt.Sprintf("the child process (task endings, env %v) died: exit code %d (%v); completed: %v", env, exit, err, ls)},
				Payload: map[string]any{"exit_code": exit, "stderr": clip(se, 6000), "env": env, "rerun": rerun}})
		}
	}
	return evals, fmt.Sprintf("child process: %d combinations with the library's own handler goz.LogPanic(logger, deep) (deep 0, 1, 5, 31, 32, 33, 64, 1000 × 4 logger shapes × limits 1, 2; 5 panic values each) survived with all slots back and one log call per panic [recorded, not judged — negative depth is a misuse:%s]; %d endings rounds (panic(nil) / Goexit / panic aborted by Goexit / re-panics in deferred functions, in children started with GODEBUG unset and GODEBUG=panicnil=1) with all slots back; %d rounds without handler / with LogPanic (7 panic values incl. 5 whose Error()/String() panic) survived with all slots back; NewLimiter(<1) = 3 in processes started with GOMAXPROCS unset/1/2", nLog, negNote, nEndings, len(rounds)), fails
}
