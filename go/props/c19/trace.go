package c19

// Trace acceptance proper: scripts are played on the real Limiter, the events they
// logged are written down in logged order as one trace per script
// (submit / start / finish / handler / waitcall / waitret) and the Lean acceptor
// (`@ C19 trace <limit>`, Golib/Model/C19.lean) replays each trace on the verified
// machine, choosing internal steps angelically. The first event the machine cannot
// perform under ANY schedule is reported together with the trace. The trace is a
// fact about the real run (no timeout is involved in the verdict).

import (
	"fmt"
	"strings"

	"verifharness/internal/core"
)

func traceOf(c core.Case, out []string) (core.Case, bool) {
	hdr := core.Toks(c.Lines[0])
	if isMulti(c) {
		return core.Case{}, false // traces of multi scripts are not replayed (per-limiter logs interleave)
	}
	lines := []string{"@ C19 trace " + hdr[3]}
	for i := 1; i < len(c.Lines); i++ {
		t := core.Toks(c.Lines[i])
		o := out[i]
		if strings.Contains(o, "inconclusive") || strings.Contains(o, "deadlock") || strings.Contains(o, "handler-missing") || o == "skipped" || o == "bad-op" || o == "panic" || o == "dead" {
			return core.Case{}, false
		}
		switch t[0] {
		case "go":
			lines = append(lines, "submit "+strings.Join(t[2:], " "))
		case "wait":
			lines = append(lines, "waitcall")
		case "k":
			continue
		case "waitt":
			lines = append(lines, "timedwait")
			continue
		case "sethandler":
			lines = append(lines, "sethandler "+t[1])
			continue
		}
		for _, e := range strings.Split(o, " | ") {
			e = strings.TrimSpace(e)
			switch {
			case e == "" || e == "blocked" || e == "queued" || e == "waiting":
			default:
				lines = append(lines, e)
			}
		}
	}
	return core.Case{Lines: lines, Tag: "trace"}, true
}

func traceExtra(ctx *core.Ctx) (int, string, []core.ExtraFailure) {
	n := 40
	if ctx.Tier == "thorough" {
		n = 1000
	}
	n *= ctx.Escalate
	var traces []core.Case
	var scripts []core.Case
	events := 0
	skipped := 0
	for _, c := range corpus() {
		scripts = append(scripts, c)
	}
	for i := 0; i < n; i++ {
		scripts = append(scripts, gen(ctx.Rand.Fork(), ctx.Tier))
	}
	for _, c := range scripts {
		out := impl(c)
		tr, ok := traceOf(c, out)
		if !ok {
			skipped++
			continue
		}
		events += len(tr.Lines) - 1
		traces = append(traces, tr)
	}
	if len(traces) == 0 {
		return 0, fmt.Sprintf("no conclusive trace (%d scripts inconclusive)", skipped), nil
	}
	model, err := core.RunOracle(ctx.VerifDir, traces)
	if err != nil {
		return len(traces), "oracle failed: " + err.Error(), []core.ExtraFailure{{
			Failure: core.Failure{Key: "trace-oracle", Desc: "the Lean acceptor could not be run: " + err.Error()}, NoInput: true}}
	}
	var fails []core.ExtraFailure
	for i, tr := range traces {
		for j, o := range model[i] {
			if j == 0 {
				continue // "cap n" (the script path compares it with the real capacity)
			}
			if o != "ok" {
				fails = append(fails, core.ExtraFailure{
					Failure: core.Failure{Key: "trace-rejected", Desc: fmt.Sprintf("event %d %q of a trace logged by the real Limiter is not enabled in the machine under any schedule (limit header %q)", j, tr.Lines[j], tr.Lines[0])},
					Payload: map[string]any{"trace": tr.Lines, "acceptor": model[i]}})
				return len(traces), fmt.Sprintf("%d traces, %d events", len(traces), events), fails
			}
		}
	}
	return len(traces), fmt.Sprintf("%d traces with %d logged events accepted by the machine (%d scripts inconclusive)", len(traces), events, skipped), fails
}
