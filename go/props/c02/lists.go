package c02

import (
	stdcmp "cmp"
	"fmt"
	"iter"
	"math/rand"
	"reflect"
	"strconv"
	"unsafe"

	"github.com/welllog/golib/listz"
)

// nodeView is what the harness reads from a *SkipNode / *SkipNodeCmp.
type nodeView[K any] struct {
	key      K
	val      int
	hasNext  bool
	next     K
	setValue func(int)
	// live access to the node behind the view (a handle the harness keeps across operations)
	again    func() *nodeView[K] // Key/Value/Next read afresh
	nextNode func() *nodeView[K] // Next() as a view (nil at the end)
}

// list adapts SkipList[K,int] and SkipListWithCmp[K,int] to one shape.
type list[K any] struct {
	set            func(K, int)
	setNx, setX    func(K, int) bool
	get, remove    func(K) (int, bool)
	clear, init    func()
	initWith       func(func(K, K) int) // SkipListWithCmp only: Init with another comparator
	length         func() int
	keys           func() []K
	values         func() []int
	rng            func(func(K, int) bool)
	all            func(func(K, int) bool)
	allSeq         func() iter.Seq2[K, int] // the iter.Seq2 value All() returns, to be kept and ranged later
	rangeWithStart func(K, func(K, int) bool)
	rangeWithRange func(K, K, func(K, int) bool)
	getNode, head  func() *nodeView[K] // getNode uses argKey
	argKey         K
	cmp            func(K, K) int // the order the list was built with
	ptr            any            // pointer to the list struct, for reflection
}

func viewOrd[K interface {
	~int | ~string | ~float64
}](n *listz.SkipNode[K, int]) *nodeView[K] {
	if n == nil {
		return nil
	}
	v := &nodeView[K]{key: n.Key(), val: n.Value(), setValue: n.SetValue}
	if nx := n.Next(); nx != nil {
		v.hasNext, v.next = true, nx.Key()
	}
	v.again = func() *nodeView[K] { return viewOrd(n) }
	v.nextNode = func() *nodeView[K] { return viewOrd(n.Next()) }
	return v
}

func viewCmp[K any](n *listz.SkipNodeCmp[K, int]) *nodeView[K] {
	if n == nil {
		return nil
	}
	v := &nodeView[K]{key: n.Key(), val: n.Value(), setValue: n.SetValue}
	if nx := n.Next(); nx != nil {
		v.hasNext, v.next = true, nx.Key()
	}
	v.again = func() *nodeView[K] { return viewCmp(n) }
	v.nextNode = func() *nodeView[K] { return viewCmp(n.Next()) }
	return v
}

func wrapOrd[K interface {
	~int | ~string | ~float64
}](s *listz.SkipList[K, int]) *list[K] {
	l := &list[K]{ptr: s, cmp: func(a, b K) int { return stdcmp.Compare(a, b) }}
	l.set, l.setNx, l.setX = s.Set, s.SetNx, s.SetX
	l.get, l.remove = s.Get, s.Remove
	l.clear, l.init = s.Clear, s.Init
	l.length, l.keys, l.values = s.Len, s.Keys, s.Values
	l.rng = s.Range
	l.all = func(f func(K, int) bool) { s.All()(f) }
	l.allSeq = s.All
	l.rangeWithStart, l.rangeWithRange = s.RangeWithStart, s.RangeWithRange
	l.getNode = func() *nodeView[K] { return viewOrd(s.GetNode(l.argKey)) }
	l.head = func() *nodeView[K] { return viewOrd(s.Head()) }
	return l
}

func wrapCmp[K any](s *listz.SkipListWithCmp[K, int], cmp func(K, K) int) *list[K] {
	l := &list[K]{ptr: s, cmp: cmp}
	l.set, l.setNx, l.setX = s.Set, s.SetNx, s.SetX
	l.get, l.remove = s.Get, s.Remove
	l.clear = s.Clear
	l.init = func() { s.Init(l.cmp) }
	l.initWith = func(f func(K, K) int) { l.cmp = f; s.Init(f) }
	l.length, l.keys, l.values = s.Len, s.Keys, s.Values
	l.rng = s.Range
	l.all = func(f func(K, int) bool) { s.All()(f) }
	l.allSeq = s.All
	l.rangeWithStart, l.rangeWithRange = s.RangeWithStart, s.RangeWithRange
	l.getNode = func() *nodeView[K] { return viewCmp(s.GetNode(l.argKey)) }
	l.head = func() *nodeView[K] { return viewCmp(s.Head()) }
	return l
}

// forced is the rand.Source64 installed in place of the list's private source.
type forced struct{ v uint64 }

func (f *forced) Uint64() uint64 { return f.v }
func (f *forced) Int63() int64   { return int64(f.v >> 1) }
func (f *forced) Seed(int64)     {}

// hookOK reports whether the private fields the harness relies on exist with the
// expected shapes (checked once per list type).
func hookOK(ptr any) bool {
	t := reflect.TypeOf(ptr).Elem()
	rf, ok := t.FieldByName("rand")
	if !ok || rf.Type != reflect.TypeOf((*rand.Rand)(nil)) {
		return false
	}
	hf, ok := t.FieldByName("head")
	if !ok || hf.Type.Kind() != reflect.Struct {
		return false
	}
	nf, ok := hf.Type.FieldByName("next")
	if !ok || nf.Type.Kind() != reflect.Slice || nf.Type.Elem().Kind() != reflect.Ptr {
		return false
	}
	if _, ok := hf.Type.FieldByName("key"); !ok {
		return false
	}
	lf, ok := t.FieldByName("level")
	if !ok || lf.Type.Kind() != reflect.Int {
		return false
	}
	nn, ok := t.FieldByName("len")
	return ok && nn.Type.Kind() == reflect.Int
}

// install replaces the list's private *rand.Rand by one drawing from src.
func install(ptr any, src *forced) {
	f := reflect.ValueOf(ptr).Elem().FieldByName("rand")
	reflect.NewAt(f.Type(), unsafe.Pointer(f.UnsafeAddr())).Elem().Set(reflect.ValueOf(rand.New(src)))
}

func uninitialised(ptr any) bool {
	return reflect.ValueOf(ptr).Elem().FieldByName("head").FieldByName("next").IsNil()
}

func levelOf(ptr any) int {
	return int(reflect.ValueOf(ptr).Elem().FieldByName("level").Int())
}

// towers reads level, len and every level's chain (as formatted keys) by reflection.
// bad is non-empty when a node's slot count disagrees with the chains it is linked in.
// idTable numbers the node objects of one list in the order they are first seen on the level-0
// chain (the harness looks after every single insert, so this is the allocation order, which is
// what the pointer-level model uses as node ids). An id is never reused.
type idTable struct {
	ids  map[unsafe.Pointer]int
	next int
}

func newIDTable() *idTable { return &idTable{ids: map[unsafe.Pointer]int{}} }

// discover walks the level-0 chain and numbers the node objects not seen before.
func (t *idTable) discover(ptr any) {
	hn := reflect.ValueOf(ptr).Elem().FieldByName("head").FieldByName("next")
	if hn.IsNil() || hn.Len() == 0 {
		return
	}
	steps := 0
	for p := hn.Index(0); !p.IsNil(); {
		up := p.UnsafePointer()
		if _, ok := t.ids[up]; !ok {
			t.ids[up] = t.next
			t.next++
		}
		nx := p.Elem().FieldByName("next")
		if nx.Len() == 0 {
			return
		}
		p = nx.Index(0)
		if steps++; steps > t.next+1 { // a cycle: stop, the dump reports it
			return
		}
	}
}

func (t *idTable) show(p unsafe.Pointer) string {
	if id, ok := t.ids[p]; ok {
		return strconv.Itoa(id)
	}
	return "?" // linked at an upper level only
}

func towers(ptr any, showKey func(reflect.Value) string, ids *idTable) (level, n int, isNil bool, chains [][]string, bad string) {
	ids.discover(ptr)
	v := reflect.ValueOf(ptr).Elem()
	level = int(v.FieldByName("level").Int())
	n = int(v.FieldByName("len").Int())
	hn := v.FieldByName("head").FieldByName("next")
	if hn.IsNil() {
		return level, n, true, nil, ""
	}
	linked := map[unsafe.Pointer]int{}
	slots := map[unsafe.Pointer]int{}
	seen := map[unsafe.Pointer]int{} // level (+1) at which the node was last met
	for i := 0; i < hn.Len(); i++ {
		var ch []string
		p := hn.Index(i)
		for !p.IsNil() {
			if seen[p.UnsafePointer()] == i+1 {
				// a node reached twice along one level: every search through it loops forever
				bad = fmt.Sprintf("cycle in the level-%d chain", i)
				break
			}
			seen[p.UnsafePointer()] = i + 1
			node := p.Elem()
			ch = append(ch, showKey(node.FieldByName("key"))+"#"+ids.show(p.UnsafePointer()))
			linked[p.UnsafePointer()]++
			nx := node.FieldByName("next")
			slots[p.UnsafePointer()] = nx.Len()
			if i >= nx.Len() {
				if bad == "" {
					bad = "node linked above its height"
				}
				break
			}
			p = nx.Index(i)
		}
		chains = append(chains, ch)
	}
	for p, k := range linked {
		if slots[p] != k && bad == "" {
			bad = "node height differs from the number of levels it is linked in"
		}
	}
	for len(chains) > 0 && len(chains[len(chains)-1]) == 0 {
		chains = chains[:len(chains)-1]
	}
	return level, n, false, chains, bad
}

// towerLens is the dump for large lists: it validates the reflected towers in place (every
// level strictly ascending under cmp, no cycle, every node linked in exactly as many levels as
// its tower is high — hence level i+1 a sub-list of level i — ) and returns only the chain
// lengths. bad is non-empty when the structure is damaged.
func towerLens[K any](ptr any, cmp func(K, K) int) (level, n int, isNil bool, lens []int, bad string) {
	v := reflect.ValueOf(ptr).Elem()
	level = int(v.FieldByName("level").Int())
	n = int(v.FieldByName("len").Int())
	head := v.FieldByName("head")
	hn := head.FieldByName("next")
	if hn.IsNil() {
		return level, n, true, nil, ""
	}
	kf, _ := head.Type().FieldByName("key")
	nf, _ := head.Type().FieldByName("next")
	linked := map[unsafe.Pointer]int32{}
	seen := map[unsafe.Pointer]int32{}
	setBad := func(m string) {
		if bad == "" {
			bad = m
		}
	}
	for i := 0; i < hn.Len(); i++ {
		p := hn.Index(i)
		cnt := 0
		var prev K
		for !p.IsNil() {
			up := p.UnsafePointer()
			if seen[up] == int32(i+1) {
				setBad(fmt.Sprintf("cycle in the level-%d chain", i))
				break
			}
			seen[up] = int32(i + 1)
			node := p.Elem()
			f := node.FieldByIndex(kf.Index)
			k := reflect.NewAt(f.Type(), unsafe.Pointer(f.UnsafeAddr())).Elem().Interface().(K)
			if cnt > 0 && cmp(prev, k) >= 0 {
				setBad(fmt.Sprintf("level %d is not strictly ascending", i))
			}
			prev = k
			cnt++
			linked[up]++
			nx := node.FieldByIndex(nf.Index)
			if i == 0 && nx.Len() == 0 {
				setBad("node with an empty tower linked at level 0")
				break
			}
			if i >= nx.Len() {
				setBad("node linked above its height")
				break
			}
			if i == nx.Len()-1 && int(linked[up]) != nx.Len() {
				setBad("node height differs from the number of levels it is linked in")
			}
			p = nx.Index(i)
		}
		lens = append(lens, cnt)
	}
	if len(lens) > 0 && len(linked) != lens[0] {
		setBad("a node is linked at an upper level but not at level 0")
	}
	for len(lens) > 0 && lens[len(lens)-1] == 0 {
		lens = lens[:len(lens)-1]
	}
	return level, n, false, lens, bad
}
