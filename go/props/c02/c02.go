// Package c02: SkipList / SkipListWithCmp behave as an ordered map
// (listz/skip.go, listz/skip_cmp.go, listz/iter.go).
package c02

import (
	"encoding/hex"
	"fmt"
	"math/bits"
	"reflect"
	"sort"
	"strconv"
	"strings"

	"github.com/welllog/golib/listz"

	"verifharness/internal/core"
)

var hooks = hookOK(&listz.SkipList[int, int]{}) && hookOK(&listz.SkipList[string, int]{}) &&
	hookOK(&listz.SkipListWithCmp[int, int]{}) && hookOK(&listz.SkipListWithCmp[string, int]{})

func init() {
	note := "tower heights forced through the private rand field (reflect+unsafe); towers read back by reflection after every op"
	if !hooks {
		note = "private fields rand/head/level/len not found with the expected shapes: tower heights NOT forced, towers not compared (API results only)"
	}
	core.Register(&core.Prop{
		ID:       "C02",
		Title:    "SkipList and SkipListWithCmp behave as an ordered map",
		Quick:    12000,
		Thorough: 120000,
		Gen:      gen,
		Corpus:   corpus,
		Impl:     impl,
		Check:    check,
		NonTrivial: func(c core.Case, out []string) bool {
			// at least one insert that grew the top level and one removal, ≥ 6 ops
			grow, rm := false, false
			prev := 0
			for i, l := range c.Lines {
				lv := dumpLevel(out[i])
				if i > 0 && lv > prev && prev > 0 {
					grow = true
				}
				if lv > 0 {
					prev = lv
				}
				if strings.HasPrefix(l, "rm ") && strings.Contains(out[i], " true") {
					rm = true
				}
			}
			return len(c.Lines) > 6 && ((grow && rm) || !hooks)
		},
		Rule:     "op sequences (set/setnx/setx/get/getnode/setnode/rm/clear/init/len/head/keys/values/range/all/rfrom/rrange with early stop) on SkipList[int|string,int] (zero value and New) and SkipListWithCmp (natural, reverse, modular-then-value / length-then-bytes comparators) with forced tower heights; non-trivial = ≥ 6 ops with at least one top-level growth and one successful removal; distinct by hash of the op list",
		Classify: classify,
		Facts:    facts,
		Parallel: true,
		Assumptions: []string{
			"Go int treated as unbounded (Len)",
			"nodes are identified by their keys in the model (pointer splicing = list surgery per level); the reflection dump of every level after every op ties the two",
			"typez.Ordered float keys (NaN) are excluded: not a total order",
			"a zero-value SkipListWithCmp has no comparator and is not usable by design; the zero-value clause is about SkipList",
			note,
		},
		TrustedBase: []string{
			"math/rand.(*Rand).Uint64 returns the Source64's word unchanged; math/bits.Len64 = floor(log2)+1",
		},
	})
}

// ---------------------------------------------------------------- keys / comparators

func cmpInt(a, b int) int {
	switch {
	case a < b:
		return -1
	case a == b:
		return 0
	}
	return 1
}

func mod3(a int) int { return ((a % 3) + 3) % 3 }

func intCmp(name string) func(a, b int) int {
	switch name {
	case "nat":
		return cmpInt
	case "rev":
		return func(a, b int) int { return cmpInt(b, a) }
	case "mod3":
		return func(a, b int) int {
			if mod3(a) != mod3(b) {
				return cmpInt(mod3(a), mod3(b))
			}
			return cmpInt(a, b)
		}
	}
	return nil
}

func strCmp(name string) func(a, b string) int {
	switch name {
	case "nat":
		return strings.Compare
	case "rev":
		return func(a, b string) int { return strings.Compare(b, a) }
	case "len":
		return func(a, b string) int {
			if len(a) != len(b) {
				return cmpInt(len(a), len(b))
			}
			return strings.Compare(a, b)
		}
	}
	return nil
}

func showStr(s string) string {
	if s == "" {
		return "-"
	}
	return hex.EncodeToString([]byte(s))
}

func parseStr(t string) (string, bool) {
	if t == "-" {
		return "", true
	}
	b, err := hex.DecodeString(t)
	return string(b), err == nil
}

func parseIntKey(t string) (int, bool) {
	v, err := strconv.Atoi(t)
	return v, err == nil
}

// ---------------------------------------------------------------- generator

func wordFor(r *core.Rand, L int) uint64 {
	var w uint64
	if L <= 1 && r.Bool() {
		w = 0
	} else {
		w = uint64(1) << (32 - L)
		if r.Chance(40) { // lower bits do not change Len64
			w |= r.Uint64() & (w - 1)
		}
	}
	if r.Chance(40) { // bits above the zone mask are ignored
		w |= r.Uint64() << 32
	}
	return w
}

var strKeys = []string{"", "a", "b", "c", "aa", "ab", "ba", "b\x80", "\xff", "a\x00", "abc", "abd", "z", "\x7f"}

func gen(r *core.Rand, tier string) core.Case {
	kind := []string{"zero", "new", "cmp", "cmp"}[r.Intn(4)]
	kt := "int"
	if r.Chance(30) {
		kt = "str"
	}
	cmp := "nat"
	if kind == "cmp" {
		if kt == "int" {
			cmp = []string{"nat", "rev", "mod3", "mod3"}[r.Intn(4)]
		} else {
			cmp = []string{"nat", "rev", "len"}[r.Intn(3)]
		}
	}
	lines := []string{fmt.Sprintf("@ C02 %s %s %s %s", kind, kt, cmp, dumpFlag())}
	span := r.Range(4, 16)
	key := func() string {
		if kt == "int" {
			return strconv.Itoa(r.Range(-2, span))
		}
		return showStr(strKeys[r.Intn(min(len(strKeys), span))])
	}
	n := r.Range(1, 70)
	if r.Chance(15) {
		n = r.Range(70, 200)
	}
	giantN := n < 70
	burst := 0
	tall := r.Chance(30)
	giant := r.Chance(8) // nearly every tower 32 high: the list climbs to level 32 and back
	val := 100
	height := func() int {
		if burst > 0 {
			burst--
			return 32
		}
		if giant && r.Chance(85) {
			return 32
		}
		if r.Chance(4) {
			burst = r.Range(1, 6)
			return 32
		}
		if tall {
			return r.Range(1, 9)
		}
		return r.Range(1, 6)
	}
	stop := func() int {
		if r.Chance(55) {
			return 0
		}
		return r.Range(1, 6)
	}
	if giant && giantN {
		n = r.Range(70, 200)
		span = r.Range(40, 60)
	}
	tag := kind + "-" + kt + "-" + cmp
	if kind == "zero" && r.Chance(25) {
		// zero-value stream: a read method (or Clear, then a method) before the first write
		if r.Bool() {
			lines = append(lines, "clear")
		}
		tag += "-zv"
	}
	for i := 0; i < n; i++ {
		val++
		switch r.Pick(30, 9, 7, 14, 8, 3, 3, 4, 1, 1, 2, 2, 2, 2, 2, 5, 5) {
		case 0:
			lines = append(lines, fmt.Sprintf("set %s %d %d", key(), val, wordFor(r, height())))
		case 1:
			lines = append(lines, fmt.Sprintf("setnx %s %d %d", key(), val, wordFor(r, height())))
		case 2:
			lines = append(lines, fmt.Sprintf("setx %s %d %d", key(), val, wordFor(r, height())))
		case 3:
			lines = append(lines, "rm "+key())
		case 4:
			lines = append(lines, "get "+key())
		case 5:
			lines = append(lines, "getnode "+key())
		case 6:
			lines = append(lines, fmt.Sprintf("setnode %s %d", key(), val))
		case 7:
			lines = append(lines, "len")
		case 8:
			lines = append(lines, "clear")
		case 9:
			if r.Chance(30) {
				lines = append(lines, "init")
			} else {
				lines = append(lines, "clear")
			}
		case 10:
			lines = append(lines, "head")
		case 11:
			lines = append(lines, "keys")
		case 12:
			lines = append(lines, "values")
		case 13:
			lines = append(lines, fmt.Sprintf("range %d", stop()))
		case 14:
			lines = append(lines, fmt.Sprintf("all %d", stop()))
		case 15:
			lines = append(lines, fmt.Sprintf("rfrom %s %d", key(), stop()))
		case 16:
			lines = append(lines, fmt.Sprintf("rrange %s %s %d", key(), key(), stop()))
		}
	}
	return core.Case{Lines: lines, Tag: tag}
}

func dumpFlag() string {
	if hooks {
		return "dump"
	}
	return "nodump"
}

func corpus() []core.Case {
	var cs []core.Case
	reads := []string{"get 1", "getnode 1", "setnode 1 5", "rm 1", "len", "head", "keys", "values", "range 0", "all 0",
		"rfrom 1 0", "rrange 1 3 0", "setx 1 5 0", "setnx 1 5 0", "set 1 5 0", "clear", "init"}
	tail := []string{"set 2 7 1073741824", "set 1 8 0", "rfrom 1 0", "rfrom 0 1", "len", "keys", "clear", "len", "set 3 9 2147483648", "range 0"}
	hdr := "@ C02 zero int nat " + dumpFlag()
	for _, m := range reads {
		// every method as the first call on the zero value; Clear, then every method (F1 witnesses)
		cs = append(cs, core.Case{Lines: append([]string{hdr, m}, tail...), Tag: "corpus-zv"})
		cs = append(cs, core.Case{Lines: append([]string{hdr, "clear", m}, tail...), Tag: "corpus-zv"})
	}
	cs = append(cs,
		// growth to level 4, removal of the tallest node (level shrinks by several), re-growth
		core.Case{Lines: []string{"@ C02 new int nat " + dumpFlag(), "set 5 1 1", "set 3 2 1", "set 8 3 1", "set 4 4 1", "rm 8", "rm 5", "set 9 5 1", "rm 3", "rm 4", "rm 9", "set 1 6 1", "rrange 0 5 0", "rfrom 2 0"}, Tag: "corpus"},
		core.Case{Lines: []string{"@ C02 cmp int mod3 " + dumpFlag(), "set 5 1 1", "set 3 2 536870912", "set 8 3 1", "set 4 4 0", "rfrom 7 0", "rrange 3 5 0", "rrange 4 3 0", "rm 8", "keys", "head", "getnode 3"}, Tag: "corpus"},
		core.Case{Lines: []string{"@ C02 cmp str len " + dumpFlag(), "set 6162 1 1", "set 7a 2 1", "set - 3 1", "set 62 4 0", "keys", "rfrom 61 0", "rrange - 7a 0", "rm 7a", "rm -", "keys"}, Tag: "corpus"},
	)
	return cs
}

// ---------------------------------------------------------------- implementation side

type runner interface {
	step(t []string) string
	dump() string
	lazyMismatch() bool
}

type run[K any] struct {
	l         *list[K]
	src       *forced
	parse     func(string) (K, bool)
	show      func(K) string
	showRV    func(reflect.Value) string
	dumpOn    bool
	mismatch  bool // the unforced height of the lazy-init insert differs from what the line asks for
	structBad string
}

func (r *run[K]) lazyMismatch() bool { return r.mismatch }

func (r *run[K]) dump() string {
	if !r.dumpOn {
		return ""
	}
	level, n, isNil, chains, bad := towers(r.l.ptr, r.showRV)
	if bad != "" {
		r.structBad = bad
	}
	body := "nil"
	if !isNil {
		parts := make([]string, len(chains))
		for i, ch := range chains {
			parts[i] = strings.Join(ch, " ")
		}
		body = strings.Join(parts, "/")
	}
	s := fmt.Sprintf(" | L=%d n=%d %s", level, n, body)
	if r.structBad != "" {
		s += " !" + r.structBad
	}
	return s
}

func randomLevelOf(w uint64) int {
	k := w & (1<<32 - 1)
	return ((32 - bits.Len64(k)) & 31) + 1
}

func (r *run[K]) kvs(xs []kv[K]) string {
	var b strings.Builder
	b.WriteByte('[')
	for i, x := range xs {
		if i > 0 {
			b.WriteByte(' ')
		}
		b.WriteString(r.show(x.k))
		b.WriteByte(':')
		b.WriteString(strconv.Itoa(x.v))
	}
	b.WriteByte(']')
	return b.String()
}

type kv[K any] struct {
	k K
	v int
}

func (r *run[K]) step(t []string) string {
	if len(t) == 0 {
		return "bad-op"
	}
	l := r.l
	collect := func(stop int, xs *[]kv[K]) func(K, int) bool {
		return func(k K, v int) bool {
			*xs = append(*xs, kv[K]{k, v})
			return len(*xs) != stop
		}
	}
	switch t[0] {
	case "set", "setx", "setnx":
		if len(t) != 4 {
			return "bad-op"
		}
		k, ok := r.parse(t[1])
		v, err := strconv.Atoi(t[2])
		w, err2 := strconv.ParseUint(t[3], 10, 64)
		if !ok || err != nil || err2 != nil {
			return "bad-op"
		}
		r.src.v = w
		lazy := r.dumpOn && uninitialised(l.ptr)
		n0 := l.length()
		var res string
		switch t[0] {
		case "set":
			l.set(k, v)
			res = "ok"
		case "setx":
			res = strconv.FormatBool(l.setX(k, v))
		case "setnx":
			res = strconv.FormatBool(l.setNx(k, v))
		}
		if lazy && !uninitialised(l.ptr) {
			// lazyInit replaced the source (time seeded) before drawing: that one height was
			// not forced. Accept the run only if it came out as the line demands.
			if l.length() == n0+1 {
				want := randomLevelOf(w)
				if want > 2 {
					want = 2
				}
				if levelOf(l.ptr) != want {
					r.mismatch = true
				}
			}
			install(l.ptr, r.src)
		}
		return res
	case "get", "getnode", "rm":
		if len(t) != 2 {
			return "bad-op"
		}
		k, ok := r.parse(t[1])
		if !ok {
			return "bad-op"
		}
		switch t[0] {
		case "get":
			v, ok := l.get(k)
			return fmt.Sprintf("%d %v", v, ok)
		case "rm":
			v, ok := l.remove(k)
			return fmt.Sprintf("%d %v", v, ok)
		}
		l.argKey = k
		n := l.getNode()
		if n == nil {
			return "nil"
		}
		nx := "nil"
		if n.hasNext {
			nx = r.show(n.next)
		}
		return fmt.Sprintf("%s %d next=%s", r.show(n.key), n.val, nx)
	case "setnode":
		if len(t) != 3 {
			return "bad-op"
		}
		k, ok := r.parse(t[1])
		v, err := strconv.Atoi(t[2])
		if !ok || err != nil {
			return "bad-op"
		}
		l.argKey = k
		n := l.getNode()
		if n == nil {
			return "nil"
		}
		n.setValue(v)
		return "ok"
	case "clear":
		if len(t) != 1 {
			return "bad-op"
		}
		l.clear()
		return "ok"
	case "init":
		if len(t) != 1 {
			return "bad-op"
		}
		l.init()
		if r.dumpOn {
			install(l.ptr, r.src)
		}
		return "ok"
	case "len":
		if len(t) != 1 {
			return "bad-op"
		}
		return strconv.Itoa(l.length())
	case "head":
		if len(t) != 1 {
			return "bad-op"
		}
		n := l.head()
		if n == nil {
			return "nil"
		}
		return fmt.Sprintf("%s %d", r.show(n.key), n.val)
	case "keys":
		if len(t) != 1 {
			return "bad-op"
		}
		ks := l.keys()
		ss := make([]string, len(ks))
		for i, k := range ks {
			ss[i] = r.show(k)
		}
		return "[" + strings.Join(ss, " ") + "]"
	case "values":
		if len(t) != 1 {
			return "bad-op"
		}
		vs := l.values()
		ss := make([]string, len(vs))
		for i, v := range vs {
			ss[i] = strconv.Itoa(v)
		}
		return "[" + strings.Join(ss, " ") + "]"
	case "range", "all":
		if len(t) != 2 {
			return "bad-op"
		}
		stop, err := strconv.Atoi(t[1])
		if err != nil || stop < 0 {
			return "bad-op"
		}
		var xs []kv[K]
		if t[0] == "range" {
			l.rng(collect(stop, &xs))
		} else {
			l.all(collect(stop, &xs))
		}
		return r.kvs(xs)
	case "rfrom":
		if len(t) != 3 {
			return "bad-op"
		}
		s, ok := r.parse(t[1])
		stop, err := strconv.Atoi(t[2])
		if !ok || err != nil || stop < 0 {
			return "bad-op"
		}
		var xs []kv[K]
		l.rangeWithStart(s, collect(stop, &xs))
		return r.kvs(xs)
	case "rrange":
		if len(t) != 4 {
			return "bad-op"
		}
		s, ok := r.parse(t[1])
		e, ok2 := r.parse(t[2])
		stop, err := strconv.Atoi(t[3])
		if !ok || !ok2 || err != nil || stop < 0 {
			return "bad-op"
		}
		var xs []kv[K]
		l.rangeWithRange(s, e, collect(stop, &xs))
		return r.kvs(xs)
	}
	return "bad-op"
}

func newRunner(hdr []string) runner {
	if len(hdr) != 4 || (hdr[3] != "dump" && hdr[3] != "nodump") {
		return nil
	}
	kind, kt, cmp := hdr[0], hdr[1], hdr[2]
	dumpOn := hdr[3] == "dump"
	src := &forced{}
	finish := func(ptr any) {
		if dumpOn && kind != "zero" {
			install(ptr, src)
		}
	}
	switch kt {
	case "int":
		r := &run[int]{src: src, parse: parseIntKey, show: strconv.Itoa, dumpOn: dumpOn,
			showRV: func(v reflect.Value) string { return strconv.FormatInt(v.Int(), 10) }}
		switch kind {
		case "zero":
			if cmp != "nat" {
				return nil
			}
			r.l = wrapOrd(&listz.SkipList[int, int]{})
		case "new":
			if cmp != "nat" {
				return nil
			}
			r.l = wrapOrd(listz.NewSkipList[int, int]())
		case "cmp":
			f := intCmp(cmp)
			if f == nil {
				return nil
			}
			r.l = wrapCmp(listz.NewSkipListWithCmp[int, int](f), f)
		default:
			return nil
		}
		finish(r.l.ptr)
		return r
	case "str":
		r := &run[string]{src: src, parse: parseStr, show: showStr, dumpOn: dumpOn,
			showRV: func(v reflect.Value) string { return showStr(v.String()) }}
		switch kind {
		case "zero":
			if cmp != "nat" {
				return nil
			}
			r.l = wrapOrd(&listz.SkipList[string, int]{})
		case "new":
			if cmp != "nat" {
				return nil
			}
			r.l = wrapOrd(listz.NewSkipList[string, int]())
		case "cmp":
			f := strCmp(cmp)
			if f == nil {
				return nil
			}
			r.l = wrapCmp(listz.NewSkipListWithCmp[string, int](f), f)
		default:
			return nil
		}
		finish(r.l.ptr)
		return r
	}
	return nil
}

func impl(c core.Case) []string {
	var out []string
	// The first insert into a zero value draws its height from the time-seeded source
	// lazyInit has just created (1 or 2, capped by level+1): rerun until it is the height
	// the line asks for, so that the case stays a function of its lines.
	for attempt := 0; attempt < 200; attempt++ {
		var r runner
		out = core.RunOps(c,
			func(hdr []string) string {
				r = newRunner(hdr)
				if r == nil {
					return "bad-op"
				}
				return "ok" + r.dump()
			},
			func(t []string) string {
				if r == nil {
					return "bad-op"
				}
				res := r.step(t)
				if res == "bad-op" {
					return res
				}
				return res + r.dump()
			})
		if r == nil || !r.lazyMismatch() {
			return out
		}
	}
	out[0] = "lazy-init height could not be matched in 200 attempts"
	return out
}

// ---------------------------------------------------------------- independent oracle

func dumpLevel(o string) int {
	i := strings.Index(o, " | L=")
	if i < 0 {
		return 0
	}
	rest := o[i+5:]
	j := strings.IndexByte(rest, ' ')
	if j < 0 {
		return 0
	}
	v, _ := strconv.Atoi(rest[:j])
	return v
}

// check evaluates the property on the implementation's answers against a Go map plus
// sort under the case's comparator, and the structural clauses on the reflected towers.
func check(c core.Case, out []string) *core.Failure {
	hdr := core.Toks(c.Lines[0])
	if len(hdr) != 6 {
		return nil
	}
	kind, kt, cmpName := hdr[2], hdr[3], hdr[4]
	var cmp func(a, b string) int // on protocol tokens
	switch kt {
	case "int":
		f := intCmp(cmpName)
		if f == nil {
			return nil
		}
		cmp = func(a, b string) int {
			x, _ := strconv.Atoi(a)
			y, _ := strconv.Atoi(b)
			return f(x, y)
		}
	case "str":
		f := strCmp(cmpName)
		if f == nil {
			return nil
		}
		cmp = func(a, b string) int {
			x, _ := parseStr(a)
			y, _ := parseStr(b)
			return f(x, y)
		}
	default:
		return nil
	}
	ref := map[string]int{}
	sorted := func() []string {
		ks := make([]string, 0, len(ref))
		for k := range ref {
			ks = append(ks, k)
		}
		sort.Slice(ks, func(i, j int) bool { return cmp(ks[i], ks[j]) < 0 })
		return ks
	}
	kvs := func(ks []string, stop int) string {
		var ss []string
		for _, k := range ks {
			ss = append(ss, k+":"+strconv.Itoa(ref[k]))
			if len(ss) == stop {
				break
			}
		}
		return "[" + strings.Join(ss, " ") + "]"
	}
	initialised := kind != "zero"
	zv := kind == "zero"
	for i := 0; i < len(c.Lines); i++ {
		res, dump := out[i], ""
		if j := strings.Index(res, " | "); j >= 0 {
			res, dump = out[i][:j], out[i][j+3:]
		}
		fail := func(key, want string) *core.Failure {
			if zv && !initialised {
				key = "zero-value-" + key
			}
			return &core.Failure{Key: key, Desc: fmt.Sprintf("op %d %q: implementation answered %q, a sorted map holding %s answers %q", i, c.Lines[i], res, kvs(sorted(), 0), want)}
		}
		if res == "bad-op" || res == "dead" {
			continue
		}
		if res == "panic" {
			return fail("panic-"+core.Toks(c.Lines[i])[0], "no panic")
		}
		if i > 0 {
			t := core.Toks(c.Lines[i])
			want := ""
			switch t[0] {
			case "set":
				ref[t[1]], _ = strconv.Atoi(t[2])
				want = "ok"
				initialised = true
			case "setnx":
				_, has := ref[t[1]]
				if !has {
					ref[t[1]], _ = strconv.Atoi(t[2])
				}
				want = strconv.FormatBool(!has)
				initialised = true
			case "setx":
				_, has := ref[t[1]]
				if has {
					ref[t[1]], _ = strconv.Atoi(t[2])
				}
				want = strconv.FormatBool(has)
			case "get":
				v, has := ref[t[1]]
				want = fmt.Sprintf("%d %v", v, has)
			case "rm":
				v, has := ref[t[1]]
				delete(ref, t[1])
				want = fmt.Sprintf("%d %v", v, has)
			case "getnode":
				v, has := ref[t[1]]
				if !has {
					want = "nil"
				} else {
					nx := "nil"
					ks := sorted()
					for j, k := range ks {
						if k == t[1] && j+1 < len(ks) {
							nx = ks[j+1]
						}
					}
					want = fmt.Sprintf("%s %d next=%s", t[1], v, nx)
				}
			case "setnode":
				if _, has := ref[t[1]]; has {
					ref[t[1]], _ = strconv.Atoi(t[2])
					want = "ok"
				} else {
					want = "nil"
				}
			case "clear":
				ref = map[string]int{}
				want = "ok"
			case "init":
				ref = map[string]int{}
				want = "ok"
				initialised = true
			case "len":
				want = strconv.Itoa(len(ref))
			case "head":
				ks := sorted()
				if len(ks) == 0 {
					want = "nil"
				} else {
					want = fmt.Sprintf("%s %d", ks[0], ref[ks[0]])
				}
			case "keys":
				want = "[" + strings.Join(sorted(), " ") + "]"
			case "values":
				var ss []string
				for _, k := range sorted() {
					ss = append(ss, strconv.Itoa(ref[k]))
				}
				want = "[" + strings.Join(ss, " ") + "]"
			case "range", "all":
				stop, _ := strconv.Atoi(t[1])
				want = kvs(sorted(), stop)
			case "rfrom":
				stop, _ := strconv.Atoi(t[2])
				var ks []string
				for _, k := range sorted() {
					if cmp(k, t[1]) >= 0 {
						ks = append(ks, k)
					}
				}
				want = kvs(ks, stop)
			case "rrange":
				stop, _ := strconv.Atoi(t[3])
				var ks []string
				for _, k := range sorted() {
					if cmp(k, t[1]) >= 0 && cmp(k, t[2]) < 0 {
						ks = append(ks, k)
					}
				}
				want = kvs(ks, stop)
			}
			// keys are canonical tokens on both sides except int keys with sign/zeros: normalise
			if res != want {
				return fail(t[0]+"-result", want)
			}
		}
		// structural clauses on the reflected towers
		if dump != "" {
			if f := checkTowers(dump, sorted(), initialised, cmp); f != "" {
				return &core.Failure{Key: "tower-structure", Desc: fmt.Sprintf("after op %d %q: %s (towers: %s)", i, c.Lines[i], f, dump)}
			}
		}
	}
	return nil
}

func checkTowers(dump string, keys []string, initialised bool, cmp func(a, b string) int) string {
	if k := strings.Index(dump, " !"); k >= 0 {
		return dump[k+2:]
	}
	f := strings.SplitN(dump, " ", 3)
	if len(f) < 2 {
		return "unreadable dump"
	}
	level, _ := strconv.Atoi(strings.TrimPrefix(f[0], "L="))
	n, _ := strconv.Atoi(strings.TrimPrefix(f[1], "n="))
	body := ""
	if len(f) == 3 {
		body = f[2]
	}
	if n != len(keys) {
		return fmt.Sprintf("len field %d, map has %d keys", n, len(keys))
	}
	if body == "nil" {
		if level != 0 || n != 0 {
			return "uninitialised list with level/len set"
		}
		return ""
	}
	if level < 1 || level > 32 {
		return fmt.Sprintf("level %d out of [1,32]", level)
	}
	var chains [][]string
	if body != "" {
		for _, p := range strings.Split(body, "/") {
			chains = append(chains, strings.Fields(p))
		}
	}
	if len(chains) > level {
		return fmt.Sprintf("non-empty chain above level %d", level)
	}
	if level > 1 && len(chains) < level {
		return fmt.Sprintf("top level %d is empty", level)
	}
	var l0 []string
	if len(chains) > 0 {
		l0 = chains[0]
	}
	if strings.Join(l0, " ") != strings.Join(keys, " ") {
		return "level 0 is not the ascending key list"
	}
	for i := 1; i < len(chains); i++ {
		j := 0
		for _, k := range chains[i] {
			for j < len(chains[i-1]) && chains[i-1][j] != k {
				j++
			}
			if j == len(chains[i-1]) {
				return fmt.Sprintf("level %d is not a sub-list of level %d", i, i-1)
			}
			j++
		}
	}
	return ""
}

func classify(c core.Case, out []string) []string {
	var ls []string
	prev := 0
	for i, l := range c.Lines {
		lv := dumpLevel(out[i])
		if i > 0 && prev > 0 && lv > prev {
			ls = append(ls, "level grow")
		}
		if i > 0 && prev > 0 && lv > 0 && lv < prev {
			if prev-lv > 1 {
				ls = append(ls, "level shrink by >1")
			} else {
				ls = append(ls, "level shrink")
			}
		}
		if lv > 0 || strings.Contains(out[i], "| L=0") {
			prev = lv
		}
		if lv == 32 {
			ls = append(ls, "at level 32")
		}
		t := core.Toks(l)
		res := out[i]
		if j := strings.Index(res, " | "); j >= 0 {
			res = res[:j]
		}
		switch {
		case res == "panic":
			ls = append(ls, "panic")
		case t[0] == "rm" && strings.HasSuffix(res, " true"):
			ls = append(ls, "rm hit")
		case t[0] == "rm":
			ls = append(ls, "rm miss")
		case (t[0] == "rfrom" || t[0] == "rrange") && res != "[]":
			if strings.HasPrefix(res, "["+t[1]+":") {
				ls = append(ls, t[0]+" start present")
			} else {
				ls = append(ls, t[0]+" start absent")
			}
		case t[0] == "setnx" || t[0] == "setx":
			ls = append(ls, t[0]+" "+res)
		}
		if i > 0 && strings.Contains(out[i-1], " nil") && strings.Contains(out[i-1], "| L=0") {
			ls = append(ls, "op on uninitialised list: "+t[0])
		}
	}
	return ls
}
