// Package c02: SkipList / SkipListWithCmp behave as an ordered map
// (listz/skip.go, listz/skip_cmp.go, listz/iter.go).
package c02

import (
	"encoding/hex"
	"fmt"
	"iter"
	"math"
	"math/bits"
	"reflect"
	"sort"
	"strconv"
	"strings"

	"github.com/welllog/golib/listz"

	"verifharness/internal/core"
)

var hooks = hookOK(&listz.SkipList[int, int]{}) && hookOK(&listz.SkipList[string, int]{}) &&
	hookOK(&listz.SkipListWithCmp[int, int]{}) && hookOK(&listz.SkipListWithCmp[string, int]{}) &&
	hookOK(&listz.SkipList[float64, int]{}) && hookOK(&listz.SkipListWithCmp[*int, int]{}) && hookOK(&listz.SkipListWithCmp[pair, int]{})

func init() {
	note := "tower heights forced through the private rand field (reflect+unsafe); towers read back by reflection after every op"
	if !hooks {
		note = "private fields rand/head/level/len not found with the expected shapes: tower heights NOT forced, towers not compared (API results only)"
	}
	core.Register(&core.Prop{
		ID:       "C02",
		Title:    "SkipList and SkipListWithCmp behave as an ordered map",
		Quick:    6000,
		Thorough: 90000,
		Gen:      gen,
		Corpus:   corpus,
		Impl:     impl,
		Check:    check,
		NonTrivial: func(c core.Case, out []string) bool {
			// at least one insert that grew the top level and one removal, ≥ 6 ops
			grow, rm := false, false
			prev := 0
			for i, l := range c.Lines {
				lv := dumpLevel(out[i])
				if i > 0 && lv > prev && prev > 0 {
					grow = true
				}
				if lv > 0 {
					prev = lv
				}
				if strings.HasPrefix(l, "rm ") && strings.Contains(out[i], " true") {
					rm = true
				}
			}
			return len(c.Lines) > 6 && ((grow && rm) || !hooks)
		},
		Rule:     "op sequences (set/setnx/setx/get/getnode/setnode/rm/clear/init/len/head/keys/values/range/all/rfrom/rrange with early stop, walk/walkfrom through Head()/GetNode()+Next(), a node handle kept across operations: hold/held/heldset/heldwalk) on SkipList[int|string,int] (zero value and New) and SkipListWithCmp (natural, reverse, modular-then-value / length-then-bytes total orders, comparators answering with arbitrary magnitudes: a-b, 7(a-b), sign·(1+hash), byte difference; and the weak orders k>>1 / length-only that identify distinct keys) with forced tower heights; wave-6: key-type matrix (int, string, *int compared by dereferencing, float64 with -0/±Inf and without NaN, struct keys), case-insensitive and first-field comparators (stored representation required in every enumeration form), recording comparators (every comparator argument must be a key of the case), stream `multi` (2–4 lists used alternately, each judged on its own); wave-4 stream `handles`: iter.Seq2 values from All() kept in slots (obtained on the zero value before the first Set, before Clear/Init/removals) and ranged afterwards fully / with early break and again / nested over themselves / by two alternating iter.Pull2 cursors; wave-3 streams: `large` (2 000–5 000 keys through bulk fill/rmrange with natural and forced-tall towers, removal desc/strided/asc, Clear+refill cycles, range bounds around every 1000th key, a node handle kept throughout; towers compared as chain lengths and validated in place), `history` (4–12 Clear/Init/drain+refill cycles with handles), `magnitude` (int64 extremes, strings of length 0/1/1000, rare random-source words 0, 1, 2^31, 2^32-1, 2^63 …); non-trivial = ≥ 6 ops with at least one top-level growth and one successful removal; distinct by hash of the op list",
		Classify: classify,
		Facts:    facts,
		Extras:   []core.Extra{{Name: "huge-lists-go-oracle", Run: extraHuge}},
		Parallel: true,
		Assumptions: []string{
			"Go int treated as unbounded (Len)",
			"nodes are identified by their keys in the model (pointer splicing = list surgery per level); the reflection dump of every level after every op ties the two",
			"float64 keys are driven without NaN: `<`/`==` with NaN is not even a weak order (NaN == NaN is false: a NaN key can be Set but never found or removed) — outside the property's `total-order` clause; -0 and 0 are one binding (weak order), ±Inf ordinary keys",
			"several lists are used alternately on ONE goroutine; concurrent use of one list is outside this sequential property",
			"a zero-value SkipListWithCmp has no comparator and is not usable by design; the zero-value clause is about SkipList",
			"a node handle is used only while its node is linked: Next() on a node that has been removed panics by construction (Remove sets its tower to nil) and is outside the ordered-map reading",
			"a case stops calling the real code as soon as the reflected towers show pointer damage (cycle, node linked above its height, chain above level): the damaged state is reported, later operations answer `halted`",
			note,
		},
		TrustedBase: []string{
			"math/rand.(*Rand).Uint64 returns the Source64's word unchanged; math/bits.Len64 = floor(log2)+1",
		},
	})
}

// ---------------------------------------------------------------- keys / comparators

func cmpInt(a, b int) int {
	switch {
	case a < b:
		return -1
	case a == b:
		return 0
	}
	return 1
}

func mod3(a int) int { return ((a % 3) + 3) % 3 }

func intCmp(name string) func(a, b int) int {
	switch name {
	case "nat":
		return cmpInt
	case "rev":
		return func(a, b int) int { return cmpInt(b, a) }
	case "mod3":
		return func(a, b int) int {
			if mod3(a) != mod3(b) {
				return cmpInt(mod3(a), mod3(b))
			}
			return cmpInt(a, b)
		}
	case "half": // weak order: 2m and 2m+1 compare equal
		return func(a, b int) int { return cmpInt(a>>1, b>>1) }
	// comparators that answer with arbitrary magnitudes (only the sign is promised)
	case "diff":
		return func(a, b int) int { return a - b }
	case "scaled":
		return func(a, b int) int { return 7 * (a - b) }
	case "sgnhash":
		return func(a, b int) int {
			h := 1 + ((31*a+17*b)%5+5)%5
			switch {
			case a < b:
				return -h
			case a == b:
				return 0
			}
			return h
		}
	case "halfdiff":
		return func(a, b int) int { return 3 * (a>>1 - b>>1) }
	}
	return nil
}

func strCmp(name string) func(a, b string) int {
	switch name {
	case "nat":
		return strings.Compare
	case "rev":
		return func(a, b string) int { return strings.Compare(b, a) }
	case "len":
		return func(a, b string) int {
			if len(a) != len(b) {
				return cmpInt(len(a), len(b))
			}
			return strings.Compare(a, b)
		}
	case "lenonly": // weak order: strings of the same length compare equal
		return func(a, b string) int { return cmpInt(len(a), len(b)) }
	case "fold": // case-insensitive (ASCII): "Banana" and "banana" are one binding, the stored spelling is reported
		return func(a, b string) int { return strings.Compare(foldLower(a), foldLower(b)) }
	case "bytesdiff": // the natural order; answers the difference of the first differing bytes / of the lengths
		return func(a, b string) int {
			for i := 0; i < len(a) && i < len(b); i++ {
				if a[i] != b[i] {
					return int(a[i]) - int(b[i])
				}
			}
			return len(a) - len(b)
		}
	}
	return nil
}

func showStr(s string) string {
	if s == "" {
		return "-"
	}
	return hex.EncodeToString([]byte(s))
}

func parseStr(t string) (string, bool) {
	if t == "-" {
		return "", true
	}
	b, err := hex.DecodeString(t)
	return string(b), err == nil
}

// ---- type matrix: *int keys (compared by dereferencing), float64 keys, struct keys

func parsePtrKey(t string) (*int, bool) {
	v, err := strconv.Atoi(t)
	if err != nil {
		return nil, false
	}
	return &v, true
}

func showPtr(p *int) string {
	if p == nil {
		return "<nil>"
	}
	return strconv.Itoa(*p)
}

// ptrCmp dereferences its arguments: the zero value of the key type (nil) must never reach it.
func ptrCmp(name string) func(a, b *int) int {
	f := intCmp(name)
	if f == nil {
		return nil
	}
	return func(a, b *int) int { return f(*a, *b) }
}

func parseF64(t string) (float64, bool) {
	v, err := strconv.ParseFloat(t, 64)
	return v, err == nil && v == v
}

func showF64(f float64) string {
	switch {
	case f == 0 && math.Signbit(f):
		return "-0"
	case math.IsInf(f, 1):
		return "+Inf"
	case math.IsInf(f, -1):
		return "-Inf"
	}
	return strconv.FormatFloat(f, 'f', -1, 64)
}

type pair struct{ A, B int }

func parsePair(t string) (pair, bool) {
	a, b, ok := strings.Cut(t, ",")
	x, err1 := strconv.Atoi(a)
	y, err2 := strconv.Atoi(b)
	return pair{x, y}, ok && err1 == nil && err2 == nil
}

func showPair(p pair) string { return strconv.Itoa(p.A) + "," + strconv.Itoa(p.B) }

func pairCmp(name string) func(a, b pair) int {
	lex := func(a, b pair) int {
		if a.A != b.A {
			return cmpInt(a.A, b.A)
		}
		return cmpInt(a.B, b.B)
	}
	switch name {
	case "lex":
		return lex
	case "rev":
		return func(a, b pair) int { return lex(b, a) }
	case "first": // weak order: pairs with the same first field are one binding
		return func(a, b pair) int { return cmpInt(a.A, b.A) }
	}
	return nil
}

func foldLower(s string) string {
	b := []byte(s)
	for i, c := range b {
		if 'A' <= c && c <= 'Z' {
			b[i] = c + 32
		}
	}
	return string(b)
}

func parseIntKey(t string) (int, bool) {
	v, err := strconv.Atoi(t)
	return v, err == nil
}

// ---------------------------------------------------------------- generator

func wordFor(r *core.Rand, L int) uint64 {
	var w uint64
	if L <= 1 && r.Bool() {
		w = 0
	} else {
		w = uint64(1) << (32 - L)
		if r.Chance(40) { // lower bits do not change Len64
			w |= r.Uint64() & (w - 1)
		}
	}
	if r.Chance(40) { // bits above the zone mask are ignored
		w |= r.Uint64() << 32
	}
	return w
}

var strKeys = []string{"", "a", "b", "c", "aa", "ab", "ba", "b\x80", "\xff", "a\x00", "abc", "abd", "z", "\x7f"}

// vdumpFlag: large lists are dumped as validated chain lengths.
func vdumpFlag() string {
	if hooks {
		return "vdump"
	}
	return "nodump"
}

var rareWords = []uint64{0, 1, 2, 3, 1<<31 - 1, 1 << 31, 1<<31 + 1, 1<<32 - 1, 1 << 32, 1<<32 + 1, 1 << 63, 1<<63 | 1, 1<<64 - 1, 1<<63 | 1<<31}

// genLarge: thousands of keys through the bulk operations (natural and forced-tall towers so
// that levels up to 16+ are populated), removal in descending / strided / ascending order so
// that the top levels shrink repeatedly, Clear and refill cycles, range bounds at and around
// every 1000th key, a node handle kept across all of it.
func genLarge(r *core.Rand, tier string) core.Case {
	n := r.Range(2000, 2200)
	if tier == "thorough" {
		n = r.Range(2000, 5000)
	}
	kind, cmp := "new", "nat"
	if r.Bool() {
		kind = "cmp"
		cmp = []string{"nat", "rev", "diff", "scaled", "sgnhash", "mod3", "half"}[r.Intn(7)]
	}
	lines := []string{fmt.Sprintf("@ C02 %s int %s %s", kind, cmp, vdumpFlag())}
	step := []int{1, 1, 2, 3, 7}[r.Intn(5)]
	lo := []int{0, -(n / 2) * step, 1 << 20}[r.Intn(3)]
	hi := lo + n*step
	kinds := []string{"nat", "tall"}
	key := func(i int) int { return lo + step*i }
	probes := func() {
		for j := 0; j*1000 <= n; j++ {
			k := key(j*1000) + r.Range(-1, 1)*step + r.Range(-1, 1)
			switch r.Intn(4) {
			case 0:
				lines = append(lines, fmt.Sprintf("rfrom %d %d", k, r.Range(1, 4)))
			case 1:
				lines = append(lines, fmt.Sprintf("rrange %d %d %d", k, k+r.Range(0, 5)*step, r.Range(0, 7)))
			case 2:
				lines = append(lines, fmt.Sprintf("getnode %d", k))
			case 3:
				lines = append(lines, fmt.Sprintf("get %d", k))
			}
		}
	}
	lines = append(lines, fmt.Sprintf("set %d 7 %d", lo, wordFor(r, r.Range(1, 20))), fmt.Sprintf("hold %d", lo))
	cycles := r.Range(2, 4)
	for c := 0; c < cycles; c++ {
		lines = append(lines, fmt.Sprintf("fill %d %d %d %d %s", lo, hi, step, r.Uint64(), kinds[r.Intn(2)]))
		probes()
		if c == 0 {
			lines = append(lines, "held", fmt.Sprintf("heldset %d", 9000+c), "keys", "values", "walk", fmt.Sprintf("walkfrom %d", key(n-3)))
		}
		// remove everything but the first key (the kept node), in one or two sweeps
		order := []string{"desc", "stride", "asc"}[r.Intn(3)]
		stride := 1
		if order == "stride" {
			stride = []int{3, 7, 11, 13, 101, 997}[r.Intn(6)]
			for (n-1)%stride == 0 && stride > 1 { // coprime to the count: every index exactly once
				stride += 2
			}
			for gcd(stride, n-1) != 1 {
				stride++
			}
		}
		if r.Chance(40) {
			mid := key(n / 2)
			lines = append(lines, fmt.Sprintf("rmrange %d %d %d %s %d", mid, hi, step, "desc", 1))
			lines = append(lines, "len", fmt.Sprintf("rfrom %d 2", mid-step))
			lines = append(lines, fmt.Sprintf("rmrange %d %d %d %s %d", lo+step, mid, step, "desc", 1))
		} else {
			lines = append(lines, fmt.Sprintf("rmrange %d %d %d %s %d", lo+step, hi, step, order, stride))
		}
		lines = append(lines, "len", "held")
		if r.Chance(50) {
			lines = append(lines, "clear", "len", fmt.Sprintf("set %d 7 %d", lo, wordFor(r, r.Range(1, 20))), fmt.Sprintf("hold %d", lo))
		}
	}
	lines = append(lines, "head", "range 3", "all 3", "keys")
	return core.Case{Lines: lines, Tag: "large"}
}

func gcd(a, b int) int {
	for b != 0 {
		a, b = b, a%b
	}
	if a < 0 {
		return -a
	}
	return a
}

// genHistory: many Clear / Init / refill cycles on the same list, with a node handle taken in
// every cycle and used across the following operations.
func genHistory(r *core.Rand, tier string) core.Case {
	kind := []string{"zero", "new", "cmp"}[r.Intn(3)]
	cmp := "nat"
	if kind == "cmp" {
		cmp = []string{"nat", "rev", "mod3", "half", "sgnhash"}[r.Intn(5)]
	}
	lines := []string{fmt.Sprintf("@ C02 %s int %s %s", kind, cmp, dumpFlag())}
	val := 100
	cycles := r.Range(4, 12)
	span := r.Range(5, 14)
	for c := 0; c < cycles; c++ {
		m := r.Range(3, 14)
		for i := 0; i < m; i++ {
			val++
			h := r.Range(1, 6)
			if r.Chance(15) {
				h = r.Range(7, 32)
			}
			lines = append(lines, fmt.Sprintf("set %d %d %d", r.Range(0, span), val, wordFor(r, h)))
			if i == 1 {
				lines = append(lines, fmt.Sprintf("hold %d", r.Range(0, span)))
			}
			if r.Chance(25) {
				lines = append(lines, []string{"held", "heldwalk", fmt.Sprintf("heldset %d", val), "walk", fmt.Sprintf("rm %d", r.Range(0, span)), fmt.Sprintf("rfrom %d 0", r.Range(-1, span))}[r.Intn(6)])
			}
		}
		lines = append(lines, "keys", "held")
		switch r.Intn(4) {
		case 0:
			if kind == "cmp" && r.Bool() {
				lines = append(lines, "initcmp "+[]string{"nat", "rev", "mod3", "half", "sgnhash"}[r.Intn(5)])
			} else {
				lines = append(lines, "init")
			}
		case 1:
			lines = append(lines, "clear", "clear")
		case 2:
			lines = append(lines, "clear")
		case 3: // drain by removal, highest key first
			for k := span; k >= 0; k-- {
				lines = append(lines, fmt.Sprintf("rm %d", k))
			}
		}
		lines = append(lines, "len", "head", "held", "range 0")
	}
	return core.Case{Lines: lines, Tag: "history"}
}

var extremeInts = []int{-1 << 63, -1<<63 + 1, 1<<63 - 1, 1<<63 - 2, -1 << 32, -1<<32 - 1, -1<<32 + 1, 1 << 32, 1<<32 - 1, 1<<32 + 1,
	-1 << 31, -1<<31 - 1, 1 << 31, 1<<31 - 1, 0, -1, 1}

var longStrs = []string{"", "a", "\x00", "\xff", strings.Repeat("a", 1000), strings.Repeat("a", 999) + "b", strings.Repeat("a", 999),
	strings.Repeat("\xff", 1000), strings.Repeat("a", 1001), "b"}

// genMagnitude: keys at the int64 extremes, strings of length 0 / 1 / 1000, and the rare
// words of the random source (0, 1, 2^31, 2^32-1, 2^63, …) that give the extreme tower heights.
func genMagnitude(r *core.Rand, tier string) core.Case {
	kind := []string{"zero", "new", "cmp", "cmp"}[r.Intn(4)]
	kt, cmp := "int", "nat"
	if r.Chance(35) {
		kt = "str"
	}
	if kind == "cmp" {
		if kt == "int" { // (a-b style comparators overflow at the extremes: not valid comparators there)
			cmp = []string{"nat", "rev", "mod3", "half"}[r.Intn(4)]
		} else {
			cmp = []string{"nat", "rev", "len", "lenonly", "bytesdiff"}[r.Intn(5)]
		}
	}
	lines := []string{fmt.Sprintf("@ C02 %s %s %s %s", kind, kt, cmp, dumpFlag())}
	key := func() string {
		if kt == "int" {
			return strconv.Itoa(extremeInts[r.Intn(len(extremeInts))])
		}
		return showStr(longStrs[r.Intn(len(longStrs))])
	}
	word := func() uint64 {
		if r.Chance(70) {
			return rareWords[r.Intn(len(rareWords))]
		}
		return wordFor(r, r.Range(1, 32))
	}
	val := 100
	for i, n := 0, r.Range(8, 40); i < n; i++ {
		val++
		switch r.Pick(30, 8, 6, 12, 6, 4, 4, 6, 6, 2, 2, 2) {
		case 0:
			lines = append(lines, fmt.Sprintf("set %s %d %d", key(), val, word()))
		case 1:
			lines = append(lines, fmt.Sprintf("setnx %s %d %d", key(), val, word()))
		case 2:
			lines = append(lines, fmt.Sprintf("setx %s %d %d", key(), val, word()))
		case 3:
			lines = append(lines, "rm "+key())
		case 4:
			lines = append(lines, "get "+key())
		case 5:
			lines = append(lines, "getnode "+key())
		case 6:
			lines = append(lines, "keys")
		case 7:
			lines = append(lines, fmt.Sprintf("rfrom %s %d", key(), r.Range(0, 3)))
		case 8:
			lines = append(lines, fmt.Sprintf("rrange %s %s %d", key(), key(), r.Range(0, 3)))
		case 9:
			lines = append(lines, "walk")
		case 10:
			lines = append(lines, "head")
		case 11:
			lines = append(lines, "clear")
		}
	}
	lines = append(lines, "len", "keys", "values", "range 0", "all 0")
	return core.Case{Lines: lines, Tag: "magnitude"}
}

// genHandles: iter.Seq2 values obtained from All() and kept (class "handle reuse"): obtained on
// the zero value before the first Set, before Clear / Init / removals, then ranged afterwards —
// fully, with an early break and again, nested over itself, through two alternating iter.Pull2
// cursors; the same slot ranged again after further mutations. A held Seq is a closure over the
// list: every range enumerates the bindings the list has at that moment.
func genHandles(r *core.Rand, tier string) core.Case {
	kind := []string{"zero", "zero", "new", "cmp", "cmp"}[r.Intn(5)]
	kt, cmp := "int", "nat"
	if kind == "cmp" {
		cmp = []string{"nat", "rev", "mod3", "half", "sgnhash", "diff"}[r.Intn(6)]
	}
	lines := []string{fmt.Sprintf("@ C02 %s %s %s %s", kind, kt, cmp, dumpFlag())}
	span := r.Range(3, 10)
	val := 100
	key := func() int { return r.Range(0, span) }
	set := func() {
		val++
		h := r.Range(1, 5)
		if r.Chance(10) {
			h = r.Range(6, 32)
		}
		lines = append(lines, fmt.Sprintf("set %d %d %d", key(), val, wordFor(r, h)))
	}
	use := func() {
		k := r.Intn(3)
		switch r.Intn(5) {
		case 0:
			lines = append(lines, fmt.Sprintf("seqrange %d %d", k, r.Range(0, 3)))
		case 1:
			lines = append(lines, fmt.Sprintf("seqtwice %d %d", k, r.Range(1, 3)))
		case 2:
			lines = append(lines, fmt.Sprintf("seqnest %d %d", k, r.Range(1, 4)))
		case 3:
			lines = append(lines, fmt.Sprintf("pull2 %d %d", k, r.Range(0, 3)))
		case 4:
			lines = append(lines, fmt.Sprintf("seqrange %d 0", k), fmt.Sprintf("seqrange %d 0", k))
		}
	}
	if r.Chance(60) {
		lines = append(lines, "seq 0") // before anything is in the list (zero value: before the lazy init)
	}
	for phase, phases := 0, r.Range(2, 5); phase < phases; phase++ {
		for i, m := 0, r.Range(1, 6); i < m; i++ {
			set()
		}
		if r.Chance(70) {
			lines = append(lines, fmt.Sprintf("seq %d", r.Intn(3)))
		}
		for i, m := 0, r.Range(1, 3); i < m; i++ {
			use()
		}
		// a structural change, then the OLD handles again
		switch r.Intn(5) {
		case 0:
			lines = append(lines, "clear")
		case 1:
			if kind == "cmp" && r.Bool() {
				lines = append(lines, "initcmp "+[]string{"nat", "rev", "mod3", "half", "sgnhash", "diff"}[r.Intn(6)])
			} else {
				lines = append(lines, "init")
			}
		case 2:
			for k := 0; k <= span; k++ {
				if r.Chance(60) {
					lines = append(lines, fmt.Sprintf("rm %d", k))
				}
			}
		case 3:
			lines = append(lines, fmt.Sprintf("rm %d", key()), fmt.Sprintf("rm %d", key()))
		case 4:
			set()
		}
		for i, m := 0, r.Range(1, 3); i < m; i++ {
			use()
		}
	}
	lines = append(lines, "seqrange 0 0", "seqrange 1 0", "seqrange 2 0", "all 0", "len")
	return core.Case{Lines: lines, Tag: "handles"}
}

var f64Keys = []string{"-0", "0", "-0", "0", "0.5", "-0.5", "1.5", "-1.5", "2.5", "+Inf", "-Inf"}

// the same words in several spellings: under the case-insensitive order they are one binding each
var foldKeys = []string{"banana", "Banana", "BANANA", "apple", "Apple", "aPPle", "cherry", "CHERRY", "", "a", "A", "b", "B", "z", "Z", "az", "Az", "aZ"}

// genMulti: 2–4 independent lists of the same type used alternately on one goroutine; each is
// judged against its own model (no state may leak between objects of the package).
func genMulti(r *core.Rand, tier string) core.Case {
	kind := []string{"zero", "new", "cmp", "cmp"}[r.Intn(4)]
	kt, cmp := "int", "nat"
	if kind == "cmp" {
		cmp = []string{"nat", "rev", "half", "sgnhash"}[r.Intn(4)]
		if r.Chance(30) {
			kt = "ptr"
		}
	}
	lines := []string{fmt.Sprintf("@ C02 %s %s %s %s", kind, kt, cmp, dumpFlag())}
	nobj := r.Range(2, 4)
	val := 100
	for i, n := 0, r.Range(10, 60); i < n; i++ {
		if r.Chance(45) {
			lines = append(lines, fmt.Sprintf("obj %d", r.Intn(nobj)))
		}
		val++
		k := r.Range(0, 8)
		switch r.Pick(30, 12, 6, 6, 4, 4, 4, 3, 2, 2) {
		case 0:
			h := r.Range(1, 5)
			if r.Chance(10) {
				h = r.Range(6, 32)
			}
			lines = append(lines, fmt.Sprintf("set %d %d %d", k, val, wordFor(r, h)))
		case 1:
			lines = append(lines, fmt.Sprintf("rm %d", k))
		case 2:
			lines = append(lines, fmt.Sprintf("get %d", k))
		case 3:
			lines = append(lines, "keys")
		case 4:
			lines = append(lines, fmt.Sprintf("rfrom %d 0", k))
		case 5:
			lines = append(lines, "all 0")
		case 6:
			lines = append(lines, fmt.Sprintf("hold %d", k), "held")
		case 7:
			lines = append(lines, "clear")
		case 8:
			lines = append(lines, "seq 0", "seqrange 0 0")
		case 9:
			lines = append(lines, "len", "head")
		}
	}
	for k := 0; k < nobj; k++ {
		lines = append(lines, fmt.Sprintf("obj %d", k), "keys", "len")
	}
	return core.Case{Lines: lines, Tag: "multi"}
}

func gen(r *core.Rand, tier string) core.Case {
	if r.Chance(3) {
		return genMulti(r, tier)
	}
	if r.Chance(6) {
		return genHandles(r, tier)
	}
	// wave-6: key-type matrix (int, string, *int compared by dereferencing, float64 with -0/±Inf and without NaN, struct keys), case-insensitive and first-field comparators (stored representation required in every enumeration form), recording comparators (every comparator argument must be a key of the case), stream `multi` (2–4 lists used alternately, each judged on its own); wave-4 stream `handles`: iter.Seq2 values from All() kept in slots (obtained on the zero value before the first Set, before Clear/Init/removals) and ranged afterwards fully / with early break and again / nested over themselves / by two alternating iter.Pull2 cursors; wave-3 streams: a light share in quick, a larger one in thorough (and on anchor drift,
	// when core asks for the thorough generator)
	share := 1 // per mille of `large`
	if tier == "thorough" {
		share = 1 // larger lists (up to 5 000 keys); ≈ 120 of 120 000 cases
	}
	switch x := r.Intn(1000); {
	case x < share:
		return genLarge(r, tier)
	case x < share+40:
		return genHistory(r, tier)
	case x < share+90:
		return genMagnitude(r, tier)
	}
	kind := []string{"zero", "new", "cmp", "cmp"}[r.Intn(4)]
	kt := "int"
	if r.Chance(30) {
		kt = "str"
	}
	// type matrix: *int keys compared by dereferencing and struct keys (SkipListWithCmp), float64 keys (SkipList)
	if r.Chance(22) {
		if kind == "cmp" {
			kt = []string{"ptr", "pair"}[r.Intn(2)]
		} else {
			kt = "f64"
		}
	}
	cmp := "nat"
	if kind == "cmp" {
		switch kt {
		case "int":
			cmp = []string{"nat", "rev", "mod3", "mod3", "half", "half", "diff", "scaled", "sgnhash", "halfdiff"}[r.Intn(10)]
		case "ptr":
			cmp = []string{"nat", "rev", "mod3", "half", "sgnhash", "diff"}[r.Intn(6)]
		case "pair":
			cmp = []string{"lex", "first", "first", "rev"}[r.Intn(4)]
		default:
			cmp = []string{"nat", "rev", "len", "lenonly", "bytesdiff", "bytesdiff", "fold", "fold"}[r.Intn(8)]
		}
	}
	lines := []string{fmt.Sprintf("@ C02 %s %s %s %s", kind, kt, cmp, dumpFlag())}
	span := r.Range(4, 16)
	key := func() string {
		switch kt {
		case "int", "ptr":
			return strconv.Itoa(r.Range(-2, span))
		case "f64":
			if r.Chance(45) {
				return f64Keys[r.Intn(len(f64Keys))]
			}
			return strconv.Itoa(r.Range(-2, span))
		case "pair":
			return fmt.Sprintf("%d,%d", r.Range(0, min(span, 6)), r.Range(0, 3))
		}
		if cmp == "fold" {
			return showStr(foldKeys[r.Intn(len(foldKeys))])
		}
		return showStr(strKeys[r.Intn(min(len(strKeys), span))])
	}
	n := r.Range(1, 70)
	if r.Chance(15) {
		n = r.Range(70, 200)
	}
	giantN := n < 70
	burst := 0
	tall := r.Chance(30)
	giant := r.Chance(8) // nearly every tower 32 high: the list climbs to level 32 and back
	val := 100
	height := func() int {
		if burst > 0 {
			burst--
			return 32
		}
		if giant && r.Chance(85) {
			return 32
		}
		if r.Chance(4) {
			burst = r.Range(1, 6)
			return 32
		}
		if tall {
			return r.Range(1, 9)
		}
		return r.Range(1, 6)
	}
	stop := func() int {
		if r.Chance(55) {
			return 0
		}
		return r.Range(1, 6)
	}
	if giant && giantN {
		n = r.Range(70, 200)
		span = r.Range(40, 60)
	}
	tag := kind + "-" + kt + "-" + cmp
	if kind == "zero" && r.Chance(25) {
		// zero-value stream: a read method (or Clear, then a method) before the first write
		if r.Bool() {
			lines = append(lines, "clear")
		}
		tag += "-zv"
	}
	for i := 0; i < n; i++ {
		val++
		switch r.Pick(30, 9, 7, 14, 8, 3, 3, 4, 1, 1, 2, 2, 2, 2, 2, 5, 5, 2, 2, 3, 3, 2, 2, 2, 2, 1, 1, 1) {
		case 0:
			lines = append(lines, fmt.Sprintf("set %s %d %d", key(), val, wordFor(r, height())))
		case 1:
			lines = append(lines, fmt.Sprintf("setnx %s %d %d", key(), val, wordFor(r, height())))
		case 2:
			lines = append(lines, fmt.Sprintf("setx %s %d %d", key(), val, wordFor(r, height())))
		case 3:
			lines = append(lines, "rm "+key())
		case 4:
			lines = append(lines, "get "+key())
		case 5:
			lines = append(lines, "getnode "+key())
		case 6:
			lines = append(lines, fmt.Sprintf("setnode %s %d", key(), val))
		case 7:
			lines = append(lines, "len")
		case 8:
			lines = append(lines, "clear")
		case 9:
			if r.Chance(30) {
				lines = append(lines, "init")
			} else {
				lines = append(lines, "clear")
			}
		case 10:
			lines = append(lines, "head")
		case 11:
			lines = append(lines, "keys")
		case 12:
			lines = append(lines, "values")
		case 13:
			lines = append(lines, fmt.Sprintf("range %d", stop()))
		case 14:
			lines = append(lines, fmt.Sprintf("all %d", stop()))
		case 15:
			lines = append(lines, fmt.Sprintf("rfrom %s %d", key(), stop()))
		case 16:
			lines = append(lines, fmt.Sprintf("rrange %s %s %d", key(), key(), stop()))
		case 17:
			lines = append(lines, "walk")
		case 18:
			lines = append(lines, "walkfrom "+key())
		case 19:
			lines = append(lines, "hold "+key())
		case 20:
			lines = append(lines, "held")
		case 21:
			lines = append(lines, fmt.Sprintf("heldset %d", val))
		case 22:
			lines = append(lines, "heldwalk")
		case 23:
			lines = append(lines, fmt.Sprintf("seq %d", r.Intn(4)))
		case 24:
			lines = append(lines, fmt.Sprintf("seqrange %d %d", r.Intn(4), stop()))
		case 25:
			lines = append(lines, fmt.Sprintf("seqtwice %d %d", r.Intn(4), r.Range(1, 4)))
		case 26:
			lines = append(lines, fmt.Sprintf("seqnest %d %d", r.Intn(4), r.Range(1, 4)))
		case 27:
			lines = append(lines, fmt.Sprintf("pull2 %d %d", r.Intn(4), r.Range(0, 3)))
		}
	}
	return core.Case{Lines: lines, Tag: tag}
}

func dumpFlag() string {
	if hooks {
		return "dump"
	}
	return "nodump"
}

func corpus() []core.Case {
	var cs []core.Case
	reads := []string{"get 1", "getnode 1", "setnode 1 5", "rm 1", "len", "head", "keys", "values", "range 0", "all 0",
		"rfrom 1 0", "rrange 1 3 0", "setx 1 5 0", "setnx 1 5 0", "set 1 5 0", "clear", "init"}
	tail := []string{"set 2 7 1073741824", "set 1 8 0", "rfrom 1 0", "rfrom 0 1", "len", "keys", "clear", "len", "set 3 9 2147483648", "range 0"}
	hdr := "@ C02 zero int nat " + dumpFlag()
	for _, m := range reads {
		// every method as the first call on the zero value; Clear, then every method (F1 witnesses)
		cs = append(cs, core.Case{Lines: append([]string{hdr, m}, tail...), Tag: "corpus-zv"})
		cs = append(cs, core.Case{Lines: append([]string{hdr, "clear", m}, tail...), Tag: "corpus-zv"})
	}
	cs = append(cs,
		// growth to level 4, removal of the tallest node (level shrinks by several), re-growth
		core.Case{Lines: []string{"@ C02 new int nat " + dumpFlag(), "set 5 1 1", "set 3 2 1", "set 8 3 1", "set 4 4 1", "rm 8", "rm 5", "set 9 5 1", "rm 3", "rm 4", "rm 9", "set 1 6 1", "rrange 0 5 0", "rfrom 2 0"}, Tag: "corpus"},
		core.Case{Lines: []string{"@ C02 cmp int mod3 " + dumpFlag(), "set 5 1 1", "set 3 2 536870912", "set 8 3 1", "set 4 4 0", "rfrom 7 0", "rrange 3 5 0", "rrange 4 3 0", "rm 8", "keys", "head", "getnode 3"}, Tag: "corpus"},
		core.Case{Lines: []string{"@ C02 cmp str len " + dumpFlag(), "set 6162 1 1", "set 7a 2 1", "set - 3 1", "set 62 4 0", "keys", "rfrom 61 0", "rrange - 7a 0", "rm 7a", "rm -", "keys"}, Tag: "corpus"},
		// weak orders: 6 and 7 (k>>1 = 3) are one binding, the stored key 7 survives the replacing Set/SetX
		core.Case{Lines: []string{"@ C02 cmp int half " + dumpFlag(), "set 7 101 536870912", "setx 6 115 0", "get 6", "get 7", "getnode 6", "setnx 6 1 0", "set 2 5 1", "set 9 6 0", "keys", "rfrom 3 0", "rrange 3 8 0", "rrange 2 6 0", "hold 3", "set 3 77 0", "held", "heldwalk", "rm 2", "held", "walk", "rm 6", "len", "keys"}, Tag: "corpus-weak"},
		core.Case{Lines: []string{"@ C02 cmp str lenonly " + dumpFlag(), "set 6162 1 1", "set 7a 2 1", "set 6263 3 0", "set - 4 1073741824", "keys", "values", "getnode 7979", "setnode 62 9", "rfrom 61 0", "rrange - 6161 0", "walkfrom 63", "rm 6364", "rm 6364", "walk", "head"}, Tag: "corpus-weak"},
		// comparators with magnitudes other than -1/0/1: the end test of RangeWithRange must use the sign only
		core.Case{Lines: []string{"@ C02 cmp int diff " + dumpFlag(), "set 1 1 1", "set 5 2 0", "set 9 3 1073741824", "rrange 0 3 0", "rrange 1 6 0", "rrange 5 5 0", "rfrom 4 0", "get 9", "rm 5", "rrange 0 7 0"}, Tag: "corpus-magnitude"},
		core.Case{Lines: []string{"@ C02 cmp int sgnhash " + dumpFlag(), "set 1 1 1", "set 2 2 0", "set 3 3 1073741824", "set 4 4 0", "rrange 0 2 0", "rrange 1 3 0", "rrange 2 4 0", "rrange 0 4 0", "rfrom 3 0", "getnode 2"}, Tag: "corpus-magnitude"},
		core.Case{Lines: []string{"@ C02 cmp str bytesdiff " + dumpFlag(), "set 61 1 1", "set 7a 2 0", "set 6162 3 1073741824", "rrange - 62 0", "rrange 61 7a 0", "rrange 61 6163 0", "rfrom 6161 0", "keys"}, Tag: "corpus-magnitude"},
		// held iter.Seq2 values: obtained on the zero value before the first Set / before Clear / before Init, ranged
		// after; ranged twice, nested over itself, two alternating Pull2 cursors
		core.Case{Lines: []string{"@ C02 zero int nat " + dumpFlag(), "seq 0", "seqrange 0 0", "set 2 7 1073741824", "set 1 8 0", "seqrange 0 0", "seq 1", "clear", "seqrange 0 0", "seqrange 1 0", "set 3 9 0", "seqrange 1 0", "seqtwice 1 1", "init", "set 4 1 0", "set 5 2 0", "seqrange 0 0", "seqnest 1 2", "pull2 0 0", "pull2 1 1"}, Tag: "corpus-handles"},
		core.Case{Lines: []string{"@ C02 cmp int rev " + dumpFlag(), "set 1 1 0", "set 2 2 1073741824", "set 3 3 0", "seq 0", "seqnest 0 3", "pull2 0 0", "seqtwice 0 2", "seqrange 0 0", "init", "seqrange 0 0", "set 9 9 0", "seqnest 0 1", "pull2 0 2"}, Tag: "corpus-handles"},
		// re-configuration: Init with another comparator (ascending -> descending -> key-identifying)
		core.Case{Lines: []string{"@ C02 cmp int nat " + dumpFlag(), "set 1 1 0", "set 2 2 1073741824", "set 3 3 0", "seq 0", "keys", "initcmp rev", "len", "set 1 1 0", "set 2 2 1073741824", "set 3 3 0", "keys", "rfrom 2 0", "rrange 3 1 0", "seqrange 0 0", "initcmp half", "set 4 4 0", "set 5 5 0", "keys", "seqrange 0 0"}, Tag: "corpus-reconfig"},
		// representation-sensitive: under a case-insensitive order the STORED spelling is what every form reports
		core.Case{Lines: []string{"@ C02 cmp str fold " + dumpFlag(), "set 42616e616e61 1 0", "set 6170706c65 2 1073741824", "rfrom 62616e616e61 0", "rrange 62414e414e41 7a 0", "getnode 62616e616e61", "setx 42414e414e41 5 0", "keys", "all 0", "range 0", "walk", "rfrom 4150504c45 1", "rm 62616e616e61", "keys"}, Tag: "corpus-types"},
		// *int keys compared by dereferencing: the nil key of the head sentinel must never reach the comparator
		core.Case{Lines: []string{"@ C02 cmp ptr nat " + dumpFlag(), "getnode 3", "get 3", "set 3 1 0", "set 5 2 1073741824", "getnode 1", "getnode 3", "getnode 4", "getnode 9", "rm 1", "rfrom 0 0", "rrange 0 9 0", "setx 0 1 0", "keys"}, Tag: "corpus-types"},
		// float64 keys: -0 and 0 are one binding (stored spelling kept), ±Inf are ordinary keys; struct keys
		core.Case{Lines: []string{"@ C02 new f64 nat " + dumpFlag(), "set -0 1 0", "set 0 2 0", "keys", "get 0", "getnode 0", "set +Inf 3 0", "set -Inf 4 1073741824", "set 2.5 5 0", "set -0.5 6 0", "keys", "rfrom 0 0", "rrange -Inf +Inf 0", "rm 0", "keys", "head"}, Tag: "corpus-types"},
		core.Case{Lines: []string{"@ C02 cmp pair first " + dumpFlag(), "set 1,2 1 0", "set 1,3 2 0", "set 0,9 3 1073741824", "keys", "rfrom 1,0 0", "getnode 1,7", "rm 1,1", "keys"}, Tag: "corpus-types"},
		// node handles: traversal by Next(), a handle kept across inserts/removals of other keys
		core.Case{Lines: []string{"@ C02 new int nat " + dumpFlag(), "walk", "set 5 1 536870912", "set 3 2 1073741824", "set 8 3 0", "walk", "walkfrom 5", "walkfrom 4", "hold 5", "rm 3", "set 6 4 1", "set 9 5 0", "held", "heldwalk", "heldset 42", "get 5", "rm 8", "heldwalk", "rm 5", "held", "heldwalk", "hold 1", "held"}, Tag: "corpus"},
	)
	return cs
}

// ---------------------------------------------------------------- implementation side

type runner interface {
	step(t []string) string
	dump() string
	lazyMismatch() bool
	isHalted() bool
	abuse() string
}

type run[K any] struct {
	l         *list[K]
	src       *forced
	parse     func(string) (K, bool)
	show      func(K) string
	showRV    func(reflect.Value) string
	dumpOn    bool
	vdump     bool                        // large lists: validate the towers in place, print chain lengths only
	ofInt     func(int) K                 // bulk operations (int keys only)
	cmpTable  func(string) func(K, K) int // comparators by name (initcmp)
	mismatch  bool                        // the unforced height of the lazy-init insert differs from what the line asks for
	structBad string
	ids       *idTable             // node objects numbered in allocation order (dump mode)
	known     map[string]bool      // every key that was an argument of an operation of this case
	cmpBad    string               // the user comparator was handed a value that is not such a key
	halted    bool                 // the reflected towers are damaged: no further call into the real code
	held      *nodeView[K]         // node handle kept by `hold`
	seqs      [4]iter.Seq2[K, int] // iter.Seq2 values kept by `seq k`
}

func (r *run[K]) isHalted() bool { return r.halted }

func (r *run[K]) abuse() string { return r.cmpBad }

// record wraps the user comparator: the list may only ever compare real keys (arguments of the
// calls made so far) — never the zero-value key of its head sentinel.
func (r *run[K]) record(f func(K, K) int) func(K, K) int {
	return func(a, b K) int {
		for _, k := range []K{a, b} {
			if t := r.show(k); !r.known[t] && r.cmpBad == "" {
				r.cmpBad = t
			}
		}
		if r.cmpBad != "" && isNilKey(a, b) {
			return 0 // do not dereference: the abuse is already recorded
		}
		return f(a, b)
	}
}

func isNilKey(ks ...any) bool {
	for _, k := range ks {
		if p, ok := k.(*int); ok && p == nil {
			return true
		}
	}
	return false
}

// learn wraps the key parser: parsed keys become known keys.
func (r *run[K]) learn() {
	base := r.parse
	r.known = map[string]bool{}
	r.parse = func(t string) (K, bool) {
		k, ok := base(t)
		if ok {
			r.known[r.show(k)] = true
		}
		return k, ok
	}
	if of := r.ofInt; of != nil {
		r.ofInt = func(i int) K {
			k := of(i)
			r.known[r.show(k)] = true
			return k
		}
	}
}

func (r *run[K]) lazyMismatch() bool { return r.mismatch }

func (r *run[K]) dump() string {
	if !r.dumpOn {
		return ""
	}
	if r.vdump {
		level, n, isNil, lens, bad := towerLens(r.l.ptr, r.l.cmp)
		if bad != "" {
			r.structBad = bad
		}
		if bad != "" || (!isNil && (len(lens) > level || level < 1 || level > 32)) {
			r.halted = true
		}
		body := "nil"
		if !isNil {
			ss := make([]string, len(lens))
			for i, x := range lens {
				ss[i] = strconv.Itoa(x)
			}
			body = strings.Join(ss, ",")
		}
		s := fmt.Sprintf(" | L=%d n=%d lens=%s", level, n, body)
		if r.structBad != "" {
			s += " !" + r.structBad
		}
		return s
	}
	level, n, isNil, chains, bad := towers(r.l.ptr, r.showRV, r.ids)
	if bad != "" {
		r.structBad = bad
	}
	// Fuse: pointer damage (a cycle, a node linked above its height, a chain above `level`)
	// can make the next search of the real code loop forever or walk into dead nodes. The
	// damage is already visible here, so the case stops calling the real code: the failing
	// operation is reported at once instead of after the 30 s hang timeout.
	if bad != "" || (!isNil && (len(chains) > level || level < 1 || level > 32)) {
		r.halted = true
	}
	body := "nil"
	if !isNil {
		parts := make([]string, len(chains))
		for i, ch := range chains {
			parts[i] = strings.Join(ch, " ")
		}
		body = strings.Join(parts, "/")
	}
	s := fmt.Sprintf(" | L=%d n=%d %s", level, n, body)
	if r.structBad != "" {
		s += " !" + r.structBad
	}
	return s
}

func randomLevelOf(w uint64) int {
	k := w & (1<<32 - 1)
	return ((32 - bits.Len64(k)) & 31) + 1
}

func (r *run[K]) kvs(xs []kv[K]) string {
	var b strings.Builder
	b.WriteByte('[')
	for i, x := range xs {
		if i > 0 {
			b.WriteByte(' ')
		}
		b.WriteString(r.show(x.k))
		b.WriteByte(':')
		b.WriteString(strconv.Itoa(x.v))
	}
	b.WriteByte(']')
	return b.String()
}

func (r *run[K]) showNode(n *nodeView[K]) string {
	if n == nil {
		return "nil"
	}
	nx := "nil"
	if n.hasNext {
		nx = r.show(n.next)
	}
	return fmt.Sprintf("%s %d next=%s", r.show(n.key), n.val, nx)
}

// walk follows Next() from n to the end, reading Key() and Value() of every node.
func (r *run[K]) walk(n *nodeView[K]) string {
	var xs []kv[K]
	limit := r.l.length() + 1000
	for n != nil {
		xs = append(xs, kv[K]{n.key, n.val})
		if len(xs) > limit {
			return "walk-does-not-terminate"
		}
		n = n.nextNode()
	}
	return r.kvs(xs)
}

type bulk struct{ lo, hi, step, n int }

// parseBulk reads `op lo hi step x y` (6 tokens); n = number of keys lo, lo+step, … < hi.
func parseBulk(t []string) (bulk, bool) {
	var a bulk
	if len(t) != 6 {
		return a, false
	}
	var err1, err2, err3 error
	a.lo, err1 = strconv.Atoi(t[1])
	a.hi, err2 = strconv.Atoi(t[2])
	a.step, err3 = strconv.Atoi(t[3])
	if err1 != nil || err2 != nil || err3 != nil {
		return a, false
	}
	if a.hi > a.lo && a.step > 0 {
		a.n = (a.hi - a.lo + a.step - 1) / a.step
	}
	return a, a.n <= 100000
}

func bulkWord(tall bool, x uint64) uint64 {
	if tall && (x>>60)%4 == 0 {
		return uint64(1) << (32 - (12 + (x>>56)%8))
	}
	return x >> 16
}

type kv[K any] struct {
	k K
	v int
}

func (r *run[K]) step(t []string) string {
	if len(t) == 0 {
		return "bad-op"
	}
	l := r.l
	collect := func(stop int, xs *[]kv[K]) func(K, int) bool {
		return func(k K, v int) bool {
			*xs = append(*xs, kv[K]{k, v})
			return len(*xs) != stop
		}
	}
	switch t[0] {
	case "set", "setx", "setnx":
		if len(t) != 4 {
			return "bad-op"
		}
		k, ok := r.parse(t[1])
		v, err := strconv.Atoi(t[2])
		w, err2 := strconv.ParseUint(t[3], 10, 64)
		if !ok || err != nil || err2 != nil {
			return "bad-op"
		}
		r.src.v = w
		lazy := r.dumpOn && uninitialised(l.ptr)
		n0 := l.length()
		var res string
		switch t[0] {
		case "set":
			l.set(k, v)
			res = "ok"
		case "setx":
			res = strconv.FormatBool(l.setX(k, v))
		case "setnx":
			res = strconv.FormatBool(l.setNx(k, v))
		}
		if lazy && !uninitialised(l.ptr) {
			// lazyInit replaced the source (time seeded) before drawing: that one height was
			// not forced. Accept the run only if it came out as the line demands.
			if l.length() == n0+1 {
				want := randomLevelOf(w)
				if want > 2 {
					want = 2
				}
				if levelOf(l.ptr) != want {
					r.mismatch = true
				}
			}
			install(l.ptr, r.src)
		}
		return res
	case "get", "getnode", "rm":
		if len(t) != 2 {
			return "bad-op"
		}
		k, ok := r.parse(t[1])
		if !ok {
			return "bad-op"
		}
		switch t[0] {
		case "get":
			v, ok := l.get(k)
			return fmt.Sprintf("%d %v", v, ok)
		case "rm":
			// the kept node leaves the list when a key equivalent to its key is removed
			if r.held != nil && l.cmp(r.held.key, k) == 0 {
				r.held = nil
			}
			v, ok := l.remove(k)
			return fmt.Sprintf("%d %v", v, ok)
		}
		l.argKey = k
		return r.showNode(l.getNode())
	case "setnode":
		if len(t) != 3 {
			return "bad-op"
		}
		k, ok := r.parse(t[1])
		v, err := strconv.Atoi(t[2])
		if !ok || err != nil {
			return "bad-op"
		}
		l.argKey = k
		n := l.getNode()
		if n == nil {
			return "nil"
		}
		n.setValue(v)
		return "ok"
	case "seq", "seqrange", "seqtwice", "seqnest", "pull2":
		want := 3
		if t[0] == "seq" {
			want = 2
		}
		if len(t) != want {
			return "bad-op"
		}
		k, err := strconv.Atoi(t[1])
		if err != nil || k < 0 || k > 3 {
			return "bad-op"
		}
		if t[0] == "seq" {
			r.seqs[k] = l.allSeq()
			return "ok"
		}
		n, err := strconv.Atoi(t[2])
		if err != nil || n < 0 || (n == 0 && (t[0] == "seqtwice" || t[0] == "seqnest")) {
			return "bad-op"
		}
		seq := r.seqs[k]
		if seq == nil {
			return "none"
		}
		limit := l.length() + 1000 // a traversal that does not end is reported, not waited for
		switch t[0] {
		case "seqrange":
			var xs []kv[K]
			for k, v := range seq {
				xs = append(xs, kv[K]{k, v})
				if len(xs) == n {
					break
				}
				if len(xs) > limit {
					return "seq-does-not-terminate"
				}
			}
			return r.kvs(xs)
		case "seqtwice":
			var xs, ys []kv[K]
			for k, v := range seq {
				xs = append(xs, kv[K]{k, v})
				if len(xs) == n {
					break
				}
			}
			for k, v := range seq {
				ys = append(ys, kv[K]{k, v})
				if len(ys) > limit {
					return "seq-does-not-terminate"
				}
			}
			return r.kvs(xs) + " ; " + r.kvs(ys)
		case "seqnest":
			var outer []kv[K]
			var counts []string
			for k, v := range seq {
				outer = append(outer, kv[K]{k, v})
				c := 0
				for range seq {
					c++
					if c > limit {
						return "seq-does-not-terminate"
					}
				}
				counts = append(counts, strconv.Itoa(c))
				if len(outer) == n || len(outer) > limit {
					break
				}
			}
			return "outer=" + r.kvs(outer) + " inner=" + strings.Join(counts, ",")
		default: // pull2
			next1, stop1 := iter.Pull2(seq)
			next2, stop2 := iter.Pull2(seq)
			defer stop1()
			defer stop2()
			var xs, ys []kv[K]
			done1, done2 := false, false
			for !done1 || !done2 {
				if !done1 {
					if k, v, ok := next1(); ok {
						xs = append(xs, kv[K]{k, v})
						if len(xs) == n {
							stop1()
							done1 = true
						}
					} else {
						done1 = true
					}
				}
				if !done2 {
					if k, v, ok := next2(); ok {
						ys = append(ys, kv[K]{k, v})
					} else {
						done2 = true
					}
				}
				if len(xs) > limit || len(ys) > limit {
					return "seq-does-not-terminate"
				}
			}
			return r.kvs(xs) + " ; " + r.kvs(ys)
		}
	case "fill":
		a, ok := parseBulk(t)
		if !ok || r.ofInt == nil || (t[5] != "nat" && t[5] != "tall") {
			return "bad-op"
		}
		seed, err := strconv.ParseUint(t[4], 10, 64)
		if err != nil {
			return "bad-op"
		}
		if r.dumpOn && uninitialised(l.ptr) {
			// the first insert of a bulk fill into a zero value would draw from the time-seeded source
			return "bad-op"
		}
		x, cnt := seed, 0
		for i := 0; i < a.n; i++ {
			x = x*6364136223846793005 + 1442695040888963407
			r.src.v = bulkWord(t[5] == "tall", x)
			if l.setNx(r.ofInt(a.lo+a.step*i), 1000+i) {
				cnt++
				if r.dumpOn && !r.vdump {
					r.ids.discover(l.ptr) // ids in allocation order
				}
			}
		}
		return strconv.Itoa(cnt)
	case "rmrange":
		a, ok := parseBulk(t)
		if !ok || r.ofInt == nil {
			return "bad-op"
		}
		stride, err := strconv.ParseUint(t[5], 10, 32)
		if err != nil || (t[4] != "asc" && t[4] != "desc" && t[4] != "stride") {
			return "bad-op"
		}
		cnt := 0
		for i := 0; i < a.n; i++ {
			idx := i
			switch t[4] {
			case "desc":
				idx = a.n - 1 - i
			case "stride":
				idx = int((uint64(i) * stride) % uint64(a.n))
			}
			if _, ok := l.remove(r.ofInt(a.lo + a.step*idx)); ok {
				cnt++
			}
		}
		if r.held != nil {
			l.argKey = r.held.key
			if l.getNode() == nil {
				r.held = nil
			}
		}
		return strconv.Itoa(cnt)
	case "walk", "heldwalk", "held":
		if len(t) != 1 {
			return "bad-op"
		}
		var n *nodeView[K]
		switch t[0] {
		case "walk":
			n = l.head()
		default:
			if r.held == nil {
				return "none"
			}
			n = r.held.again()
			if t[0] == "held" {
				return r.showNode(n)
			}
		}
		return r.walk(n)
	case "walkfrom", "hold":
		if len(t) != 2 {
			return "bad-op"
		}
		k, ok := r.parse(t[1])
		if !ok {
			return "bad-op"
		}
		l.argKey = k
		n := l.getNode()
		if t[0] == "hold" {
			r.held = n
			if n == nil {
				return "nil"
			}
			return r.showNode(n)
		}
		return r.walk(n)
	case "heldset":
		if len(t) != 2 {
			return "bad-op"
		}
		v, err := strconv.Atoi(t[1])
		if err != nil {
			return "bad-op"
		}
		if r.held == nil {
			return "none"
		}
		r.held.setValue(v)
		return "ok"
	case "initcmp":
		if len(t) != 2 || l.initWith == nil {
			return "bad-op"
		}
		f := r.cmpTable(t[1])
		if f == nil {
			return "bad-op"
		}
		r.held = nil
		l.initWith(r.record(f))
		if r.dumpOn {
			install(l.ptr, r.src)
		}
		return "ok"
	case "clear":
		if len(t) != 1 {
			return "bad-op"
		}
		l.clear()
		r.held = nil
		return "ok"
	case "init":
		if len(t) != 1 {
			return "bad-op"
		}
		r.held = nil
		l.init()
		if r.dumpOn {
			install(l.ptr, r.src)
		}
		return "ok"
	case "len":
		if len(t) != 1 {
			return "bad-op"
		}
		return strconv.Itoa(l.length())
	case "head":
		if len(t) != 1 {
			return "bad-op"
		}
		n := l.head()
		if n == nil {
			return "nil"
		}
		return fmt.Sprintf("%s %d", r.show(n.key), n.val)
	case "keys":
		if len(t) != 1 {
			return "bad-op"
		}
		ks := l.keys()
		ss := make([]string, len(ks))
		for i, k := range ks {
			ss[i] = r.show(k)
		}
		return "[" + strings.Join(ss, " ") + "]"
	case "values":
		if len(t) != 1 {
			return "bad-op"
		}
		vs := l.values()
		ss := make([]string, len(vs))
		for i, v := range vs {
			ss[i] = strconv.Itoa(v)
		}
		return "[" + strings.Join(ss, " ") + "]"
	case "range", "all":
		if len(t) != 2 {
			return "bad-op"
		}
		stop, err := strconv.Atoi(t[1])
		if err != nil || stop < 0 {
			return "bad-op"
		}
		var xs []kv[K]
		if t[0] == "range" {
			l.rng(collect(stop, &xs))
		} else {
			l.all(collect(stop, &xs))
		}
		return r.kvs(xs)
	case "rfrom":
		if len(t) != 3 {
			return "bad-op"
		}
		s, ok := r.parse(t[1])
		stop, err := strconv.Atoi(t[2])
		if !ok || err != nil || stop < 0 {
			return "bad-op"
		}
		var xs []kv[K]
		l.rangeWithStart(s, collect(stop, &xs))
		return r.kvs(xs)
	case "rrange":
		if len(t) != 4 {
			return "bad-op"
		}
		s, ok := r.parse(t[1])
		e, ok2 := r.parse(t[2])
		stop, err := strconv.Atoi(t[3])
		if !ok || !ok2 || err != nil || stop < 0 {
			return "bad-op"
		}
		var xs []kv[K]
		l.rangeWithRange(s, e, collect(stop, &xs))
		return r.kvs(xs)
	}
	return "bad-op"
}

func newRunner(hdr []string) runner {
	if len(hdr) != 4 || (hdr[3] != "dump" && hdr[3] != "nodump" && hdr[3] != "vdump") {
		return nil
	}
	kind, kt, cmp := hdr[0], hdr[1], hdr[2]
	dumpOn := hdr[3] != "nodump"
	vdump := hdr[3] == "vdump"
	src := &forced{}
	finish := func(ptr any) {
		if dumpOn && kind != "zero" {
			install(ptr, src)
		}
	}
	switch kt {
	case "int":
		r := &run[int]{ids: newIDTable(), src: src, parse: parseIntKey, show: strconv.Itoa, dumpOn: dumpOn, vdump: vdump, ofInt: func(i int) int { return i }, cmpTable: intCmp,
			showRV: func(v reflect.Value) string { return strconv.FormatInt(v.Int(), 10) }}
		r.learn()
		switch kind {
		case "zero":
			if cmp != "nat" {
				return nil
			}
			r.l = wrapOrd(&listz.SkipList[int, int]{})
		case "new":
			if cmp != "nat" {
				return nil
			}
			r.l = wrapOrd(listz.NewSkipList[int, int]())
		case "cmp":
			f := intCmp(cmp)
			if f == nil {
				return nil
			}
			f = r.record(f)
			r.l = wrapCmp(listz.NewSkipListWithCmp[int, int](f), f)
		default:
			return nil
		}
		finish(r.l.ptr)
		return r
	case "str":
		r := &run[string]{ids: newIDTable(), src: src, parse: parseStr, show: showStr, dumpOn: dumpOn, vdump: vdump, cmpTable: strCmp,
			showRV: func(v reflect.Value) string { return showStr(v.String()) }}
		r.learn()
		switch kind {
		case "zero":
			if cmp != "nat" {
				return nil
			}
			r.l = wrapOrd(&listz.SkipList[string, int]{})
		case "new":
			if cmp != "nat" {
				return nil
			}
			r.l = wrapOrd(listz.NewSkipList[string, int]())
		case "cmp":
			f := strCmp(cmp)
			if f == nil {
				return nil
			}
			f = r.record(f)
			r.l = wrapCmp(listz.NewSkipListWithCmp[string, int](f), f)
		default:
			return nil
		}
		finish(r.l.ptr)
		return r
	case "ptr": // *int keys compared by dereferencing (SkipListWithCmp only)
		if kind != "cmp" {
			return nil
		}
		r := &run[*int]{ids: newIDTable(), src: src, parse: parsePtrKey, show: showPtr, dumpOn: dumpOn, vdump: vdump,
			ofInt: func(i int) *int { return &i }, cmpTable: ptrCmp,
			showRV: func(v reflect.Value) string {
				if v.IsNil() {
					return "<nil>"
				}
				return strconv.FormatInt(v.Elem().Int(), 10)
			}}
		r.learn()
		f := ptrCmp(cmp)
		if f == nil {
			return nil
		}
		f = r.record(f)
		r.l = wrapCmp(listz.NewSkipListWithCmp[*int, int](f), f)
		finish(r.l.ptr)
		return r
	case "f64": // float64 keys of SkipList (built-in order; NaN excluded, -0 and 0 compare equal)
		if cmp != "nat" || (kind != "zero" && kind != "new") {
			return nil
		}
		r := &run[float64]{ids: newIDTable(), src: src, parse: parseF64, show: showF64, dumpOn: dumpOn, vdump: vdump,
			ofInt:  func(i int) float64 { return float64(i) },
			showRV: func(v reflect.Value) string { return showF64(v.Float()) }}
		r.learn()
		if kind == "zero" {
			r.l = wrapOrd(&listz.SkipList[float64, int]{})
		} else {
			r.l = wrapOrd(listz.NewSkipList[float64, int]())
		}
		finish(r.l.ptr)
		return r
	case "pair": // struct keys through SkipListWithCmp
		if kind != "cmp" {
			return nil
		}
		r := &run[pair]{ids: newIDTable(), src: src, parse: parsePair, show: showPair, dumpOn: dumpOn, vdump: vdump, cmpTable: pairCmp,
			showRV: func(v reflect.Value) string {
				return strconv.FormatInt(v.Field(0).Int(), 10) + "," + strconv.FormatInt(v.Field(1).Int(), 10)
			}}
		r.learn()
		f := pairCmp(cmp)
		if f == nil {
			return nil
		}
		f = r.record(f)
		r.l = wrapCmp(listz.NewSkipListWithCmp[pair, int](f), f)
		finish(r.l.ptr)
		return r
	}
	return nil
}

func impl(c core.Case) []string {
	var out []string
	// The first insert into a zero value draws its height from the time-seeded source
	// lazyInit has just created (1 or 2, capped by level+1): rerun until it is the height
	// the line asks for, so that the case stays a function of its lines.
	for attempt := 0; attempt < 400; attempt++ {
		// four independent lists per case (`obj k` switches); all created by the header
		var rs [4]runner
		cur := 0
		out = core.RunOps(c,
			func(hdr []string) string {
				for k := range rs {
					rs[k] = newRunner(hdr)
				}
				if rs[0] == nil {
					return "bad-op"
				}
				return "ok" + rs[0].dump()
			},
			func(t []string) string {
				if rs[0] == nil {
					return "bad-op"
				}
				if len(t) > 0 && t[0] == "obj" {
					if len(t) != 2 {
						return "bad-op"
					}
					k, err := strconv.Atoi(t[1])
					if err != nil || k < 0 || k > 3 || strings.HasPrefix(t[1], "+") || strings.HasPrefix(t[1], "-") {
						return "bad-op"
					}
					cur = k
					return "ok"
				}
				r := rs[cur]
				if r.isHalted() {
					return "halted"
				}
				res := r.step(t)
				if res == "bad-op" {
					return res
				}
				if a := r.abuse(); a != "" {
					return "comparator-abuse: the comparator was called with " + a + ", which is not a key of this case"
				}
				return res + r.dump()
			})
		mism := false
		for _, r := range rs {
			mism = mism || (r != nil && r.lazyMismatch())
		}
		if !mism {
			return out
		}
	}
	out[0] = "lazy-init height could not be matched in 200 attempts"
	return out
}

// ---------------------------------------------------------------- independent oracle

func dumpLevel(o string) int {
	i := strings.Index(o, " | L=")
	if i < 0 {
		return 0
	}
	rest := o[i+5:]
	j := strings.IndexByte(rest, ' ')
	if j < 0 {
		return 0
	}
	v, _ := strconv.Atoi(rest[:j])
	return v
}

// check evaluates the property on the implementation's answers against a Go map plus
// sort under the case's comparator, and the structural clauses on the reflected towers.
// check judges every list of the case against its own sorted-map reference: the lines of each
// object (`obj k` switches) are checked as a case of their own.
func check(c core.Case, out []string) *core.Failure {
	multi := false
	for _, l := range c.Lines[1:] {
		if strings.HasPrefix(l, "obj") {
			multi = true
			break
		}
	}
	if !multi || len(out) != len(c.Lines) {
		return checkOne(c, out)
	}
	var sub [4]core.Case
	var subOut [4][]string
	var pos [4][]int
	for k := range sub {
		sub[k].Lines = []string{c.Lines[0]}
		pos[k] = []int{0}
		if k == 0 {
			subOut[k] = []string{out[0]}
		} else {
			subOut[k] = []string{"ok"}
		}
	}
	cur := 0
	for i := 1; i < len(c.Lines); i++ {
		t := core.Toks(c.Lines[i])
		if len(t) > 0 && t[0] == "obj" {
			if out[i] == "ok" && len(t) == 2 {
				cur, _ = strconv.Atoi(t[1])
			} else if out[i] != "bad-op" && out[i] != "dead" {
				return &core.Failure{Key: "obj-switch", Desc: fmt.Sprintf("op %d %q answered %q", i, c.Lines[i], out[i])}
			}
			continue
		}
		sub[cur].Lines = append(sub[cur].Lines, c.Lines[i])
		subOut[cur] = append(subOut[cur], out[i])
		pos[cur] = append(pos[cur], i)
	}
	for k := range sub {
		if f := checkOne(sub[k], subOut[k]); f != nil {
			f.Desc = fmt.Sprintf("list %d of the case (its own lines: %q): %s", k, sub[k].Lines[1:], f.Desc)
			return f
		}
	}
	return nil
}

func checkOne(c core.Case, out []string) *core.Failure {
	hdr := core.Toks(c.Lines[0])
	if len(hdr) != 6 {
		return nil
	}
	kind, kt, cmpName := hdr[2], hdr[3], hdr[4]
	cmp := tokenCmp(kt, cmpName) // on protocol tokens
	if cmp == nil {
		return nil
	}
	// The reference: bindings keyed by comparator-equivalence class. A key that compares equal
	// to a stored key denotes the same binding and the stored key stays (for a total order
	// this is a plain map). Kept in insertion order; sorted on demand.
	type ent struct {
		k string
		v int
	}
	var ref []ent
	// total orders: a key is its own class, look it up by token; weak orders: linear search
	weak := isWeak(kt, cmpName)
	idx := map[string]int{}
	find := func(k string) int {
		if !weak {
			if kt == "int" { // canonical token ("+1", "01" never generated, but stay safe)
				if v, err := strconv.Atoi(k); err == nil {
					k = strconv.Itoa(v)
				}
			}
			if j, ok := idx[k]; ok {
				return j
			}
			return -1
		}
		for i := range ref {
			if cmp(ref[i].k, k) == 0 {
				return i
			}
		}
		return -1
	}
	del := func(j int) {
		delete(idx, ref[j].k)
		last := len(ref) - 1
		if j != last {
			ref[j] = ref[last]
			idx[ref[j].k] = j
		}
		ref = ref[:last]
	}
	var sortedCache []ent
	dirty := true
	sortedEnts := func() []ent {
		if dirty {
			sortedCache = append([]ent(nil), ref...)
			sort.Slice(sortedCache, func(i, j int) bool { return cmp(sortedCache[i].k, sortedCache[j].k) < 0 })
			dirty = false
		}
		return sortedCache
	}
	sorted := func() []string {
		es := sortedEnts()
		ks := make([]string, len(es))
		for i, e := range es {
			ks[i] = e.k
		}
		return ks
	}
	kvs := func(es []ent, stop int) string {
		var ss []string
		for _, e := range es {
			ss = append(ss, e.k+":"+strconv.Itoa(e.v))
			if len(ss) == stop {
				break
			}
		}
		return "[" + strings.Join(ss, " ") + "]"
	}
	nodeStr := func(k string) string {
		es := sortedEnts()
		for j, e := range es {
			if cmp(e.k, k) == 0 {
				nx := "nil"
				if j+1 < len(es) {
					nx = es[j+1].k
				}
				return fmt.Sprintf("%s %d next=%s", e.k, e.v, nx)
			}
		}
		return "nil"
	}
	from := func(k string) []ent { // the bindings from the one equivalent to k (present) to the end
		es := sortedEnts()
		for j, e := range es {
			if cmp(e.k, k) == 0 {
				return es[j:]
			}
		}
		return nil
	}
	held, hasHeld := "", false
	var seqHeld [4]bool // Seq slots: a held Seq is a closure over the list, it enumerates the CURRENT bindings
	initialised := kind != "zero"
	zv := kind == "zero"
	for i := 0; i < len(c.Lines); i++ {
		res, dump := out[i], ""
		if j := strings.Index(res, " | "); j >= 0 {
			res, dump = out[i][:j], out[i][j+3:]
		}
		fail := func(key, want string) *core.Failure {
			if zv && !initialised {
				key = "zero-value-" + key
			}
			clip := func(x string) string {
				if len(x) > 400 {
					return x[:400] + "…(" + strconv.Itoa(len(x)) + " bytes)"
				}
				return x
			}
			holding := kvs(sortedEnts(), 12)
			if len(ref) > 12 {
				holding += fmt.Sprintf("… (%d bindings)", len(ref))
			}
			return &core.Failure{Key: key, Desc: fmt.Sprintf("op %d %q: implementation answered %q, a sorted map holding %s answers %q", i, c.Lines[i], clip(res), holding, clip(want))}
		}
		if res == "bad-op" || res == "dead" || res == "halted" {
			continue
		}
		if res == "panic" {
			return fail("panic-"+core.Toks(c.Lines[i])[0], "no panic")
		}
		if strings.HasPrefix(res, "comparator-abuse") {
			return &core.Failure{Key: "comparator-argument", Desc: fmt.Sprintf("op %d %q: %s (the list compared something that is not a key: the zero-value key of its head sentinel?)", i, c.Lines[i], res)}
		}
		if i > 0 {
			t := core.Toks(c.Lines[i])
			want := ""
			put := func(k string, v int) {
				dirty = true
				if j := find(k); j >= 0 {
					ref[j].v = v // the stored key stays
				} else {
					idx[k] = len(ref)
					ref = append(ref, ent{k, v})
				}
			}
			switch t[0] {
			case "set":
				v, _ := strconv.Atoi(t[2])
				put(t[1], v)
				want = "ok"
				initialised = true
			case "setnx":
				has := find(t[1]) >= 0
				if !has {
					v, _ := strconv.Atoi(t[2])
					put(t[1], v)
				}
				want = strconv.FormatBool(!has)
				initialised = true
			case "setx":
				has := find(t[1]) >= 0
				if has {
					v, _ := strconv.Atoi(t[2])
					put(t[1], v)
				}
				want = strconv.FormatBool(has)
			case "get":
				if j := find(t[1]); j >= 0 {
					want = fmt.Sprintf("%d true", ref[j].v)
				} else {
					want = "0 false"
				}
			case "rm":
				if j := find(t[1]); j >= 0 {
					want = fmt.Sprintf("%d true", ref[j].v)
					if hasHeld && cmp(held, ref[j].k) == 0 {
						hasHeld = false
					}
					del(j)
					dirty = true
				} else {
					want = "0 false"
				}
			case "seq":
				k, _ := strconv.Atoi(t[1])
				seqHeld[k] = true
				want = "ok"
			case "seqrange", "seqtwice", "seqnest", "pull2":
				k, _ := strconv.Atoi(t[1])
				n, _ := strconv.Atoi(t[2])
				es := sortedEnts()
				switch {
				case !seqHeld[k]:
					want = "none"
				case t[0] == "seqrange":
					want = kvs(es, n)
				case t[0] == "seqtwice":
					want = kvs(es, n) + " ; " + kvs(es, 0)
				case t[0] == "pull2":
					want = kvs(es, n) + " ; " + kvs(es, 0)
				default:
					m := min(n, len(es))
					cs := make([]string, m)
					for j := range cs {
						cs[j] = strconv.Itoa(len(es))
					}
					want = "outer=" + kvs(es, n) + " inner=" + strings.Join(cs, ",")
				}
			case "fill":
				a, _ := parseBulk(t)
				cnt := 0
				for i := 0; i < a.n; i++ {
					k := strconv.Itoa(a.lo + a.step*i)
					if find(k) < 0 {
						put(k, 1000+i)
						cnt++
					}
				}
				want = strconv.Itoa(cnt)
			case "rmrange":
				a, _ := parseBulk(t)
				stride, _ := strconv.ParseUint(t[5], 10, 32)
				cnt := 0
				for i := 0; i < a.n; i++ {
					ix := i
					switch t[4] {
					case "desc":
						ix = a.n - 1 - i
					case "stride":
						ix = int((uint64(i) * stride) % uint64(a.n))
					}
					if j := find(strconv.Itoa(a.lo + a.step*ix)); j >= 0 {
						del(j)
						dirty = true
						cnt++
					}
				}
				if hasHeld && find(held) < 0 {
					hasHeld = false
				}
				want = strconv.Itoa(cnt)
			case "getnode":
				want = nodeStr(t[1])
			case "hold":
				want = nodeStr(t[1])
				hasHeld = want != "nil"
				if j := find(t[1]); j >= 0 {
					held = ref[j].k
				}
			case "held":
				want = "none"
				if hasHeld {
					want = nodeStr(held)
				}
			case "heldset":
				want = "none"
				if hasHeld {
					v, _ := strconv.Atoi(t[1])
					put(held, v)
					want = "ok"
				}
			case "heldwalk":
				want = "none"
				if hasHeld {
					want = kvs(from(held), 0)
				}
			case "walk":
				want = kvs(sortedEnts(), 0)
			case "walkfrom":
				want = kvs(from(t[1]), 0)
			case "setnode":
				if find(t[1]) >= 0 {
					v, _ := strconv.Atoi(t[2])
					put(t[1], v)
					want = "ok"
				} else {
					want = "nil"
				}
			case "clear":
				ref, idx, dirty = nil, map[string]int{}, true
				hasHeld = false
				want = "ok"
			case "initcmp":
				// Init with another comparator: everything is reset, the new order rules from now on
				cmpName = t[1]
				cmp = tokenCmp(kt, cmpName)
				weak = isWeak(kt, cmpName)
				ref, idx, dirty = nil, map[string]int{}, true
				hasHeld = false
				want = "ok"
			case "init":
				ref, idx, dirty = nil, map[string]int{}, true
				hasHeld = false
				want = "ok"
				initialised = true
			case "len":
				want = strconv.Itoa(len(ref))
			case "head":
				es := sortedEnts()
				if len(es) == 0 {
					want = "nil"
				} else {
					want = fmt.Sprintf("%s %d", es[0].k, es[0].v)
				}
			case "keys":
				want = "[" + strings.Join(sorted(), " ") + "]"
			case "values":
				var ss []string
				for _, e := range sortedEnts() {
					ss = append(ss, strconv.Itoa(e.v))
				}
				want = "[" + strings.Join(ss, " ") + "]"
			case "range", "all":
				stop, _ := strconv.Atoi(t[1])
				want = kvs(sortedEnts(), stop)
			case "rfrom":
				stop, _ := strconv.Atoi(t[2])
				var es []ent
				for _, e := range sortedEnts() {
					if cmp(e.k, t[1]) >= 0 {
						es = append(es, e)
					}
				}
				want = kvs(es, stop)
			case "rrange":
				stop, _ := strconv.Atoi(t[3])
				var es []ent
				for _, e := range sortedEnts() {
					if cmp(e.k, t[1]) >= 0 && cmp(e.k, t[2]) < 0 {
						es = append(es, e)
					}
				}
				want = kvs(es, stop)
			}
			if res != want {
				return fail(t[0]+"-result", want)
			}
		}
		// structural clauses on the reflected towers
		if dump != "" {
			if f := checkTowers(dump, sorted(), initialised, cmp); f != "" {
				return &core.Failure{Key: "tower-structure", Desc: fmt.Sprintf("after op %d %q: %s (towers: %s)", i, c.Lines[i], f, dump)}
			}
		}
	}
	return nil
}

// tokenCmp is the case's order on protocol tokens (the independent oracle's own comparator).
func tokenCmp(kt, name string) func(a, b string) int {
	switch kt {
	case "int", "ptr":
		f := intCmp(name)
		if f == nil {
			return nil
		}
		return func(a, b string) int {
			x, _ := strconv.Atoi(a)
			y, _ := strconv.Atoi(b)
			return f(x, y)
		}
	case "str":
		f := strCmp(name)
		if f == nil {
			return nil
		}
		return func(a, b string) int {
			x, _ := parseStr(a)
			y, _ := parseStr(b)
			return f(x, y)
		}
	case "f64":
		if name != "nat" {
			return nil
		}
		return func(a, b string) int {
			x, _ := parseF64(a)
			y, _ := parseF64(b)
			switch {
			case x < y:
				return -1
			case x > y:
				return 1
			}
			return 0 // incl. -0 against 0
		}
	case "pair":
		f := pairCmp(name)
		if f == nil {
			return nil
		}
		return func(a, b string) int {
			x, _ := parsePair(a)
			y, _ := parsePair(b)
			return f(x, y)
		}
	}
	return nil
}

func isWeak(kt, name string) bool {
	return kt == "f64" || name == "half" || name == "halfdiff" || name == "lenonly" || name == "fold" || name == "first"
}

func checkTowers(dump string, keys []string, initialised bool, cmp func(a, b string) int) string {
	if k := strings.Index(dump, " !"); k >= 0 {
		return dump[k+2:]
	}
	f := strings.SplitN(dump, " ", 3)
	if len(f) < 2 {
		return "unreadable dump"
	}
	level, _ := strconv.Atoi(strings.TrimPrefix(f[0], "L="))
	n, _ := strconv.Atoi(strings.TrimPrefix(f[1], "n="))
	body := ""
	if len(f) == 3 {
		body = f[2]
	}
	if n != len(keys) {
		return fmt.Sprintf("len field %d, map has %d keys", n, len(keys))
	}
	if strings.HasPrefix(body, "lens=") {
		// large lists: the runner has validated order, cycles and tower heights in place
		// (reported through `!…`, handled above); here: the level bookkeeping
		body = strings.TrimPrefix(body, "lens=")
		if body == "nil" {
			if level != 0 || n != 0 {
				return "uninitialised list with level/len set"
			}
			return ""
		}
		if level < 1 || level > 32 {
			return fmt.Sprintf("level %d out of [1,32]", level)
		}
		var lens []int
		if body != "" {
			for _, x := range strings.Split(body, ",") {
				v, err := strconv.Atoi(x)
				if err != nil {
					return "unreadable dump"
				}
				lens = append(lens, v)
			}
		}
		if len(lens) > level {
			return fmt.Sprintf("non-empty chain above level %d", level)
		}
		if level > 1 && len(lens) < level {
			return fmt.Sprintf("top level %d is empty", level)
		}
		if len(lens) > 0 && lens[0] != n {
			return fmt.Sprintf("level 0 has %d nodes, len is %d", lens[0], n)
		}
		if len(lens) == 0 && n != 0 {
			return fmt.Sprintf("level 0 is empty, len is %d", n)
		}
		for i := 1; i < len(lens); i++ {
			if lens[i] > lens[i-1] {
				return fmt.Sprintf("level %d is longer than level %d", i, i-1)
			}
		}
		return ""
	}
	if body == "nil" {
		if level != 0 || n != 0 {
			return "uninitialised list with level/len set"
		}
		return ""
	}
	if level < 1 || level > 32 {
		return fmt.Sprintf("level %d out of [1,32]", level)
	}
	var chains [][]string
	if body != "" {
		for _, p := range strings.Split(body, "/") {
			chains = append(chains, strings.Fields(p))
		}
	}
	if len(chains) > level {
		return fmt.Sprintf("non-empty chain above level %d", level)
	}
	if level > 1 && len(chains) < level {
		return fmt.Sprintf("top level %d is empty", level)
	}
	var l0 []string
	if len(chains) > 0 {
		l0 = make([]string, len(chains[0]))
		for j, tok := range chains[0] {
			l0[j], _, _ = strings.Cut(tok, "#")
		}
	}
	if strings.Join(l0, " ") != strings.Join(keys, " ") {
		return "level 0 is not the ascending key list"
	}
	// tokens are key#id: level i+1 must be a sub-list of level i as a list of node OBJECTS (same
	// id, not merely the same key), and an id stands for one object
	for i := 1; i < len(chains); i++ {
		j := 0
		for _, k := range chains[i] {
			for j < len(chains[i-1]) && chains[i-1][j] != k {
				j++
			}
			if j == len(chains[i-1]) {
				return fmt.Sprintf("level %d is not a sub-list of level %d (as node objects)", i, i-1)
			}
			j++
		}
	}
	seenID := map[string]bool{}
	for _, tok := range append([][]string{nil}, chains...)[min(1, len(chains))] {
		if _, id, ok := strings.Cut(tok, "#"); ok {
			if id == "?" || seenID[id] {
				return "node identity broken on level 0"
			}
			seenID[id] = true
		}
	}
	return ""
}

func classify(c core.Case, out []string) []string {
	var ls []string
	prev := 0
	for i, l := range c.Lines {
		lv := dumpLevel(out[i])
		if i > 0 && prev > 0 && lv > prev {
			ls = append(ls, "level grow")
		}
		if i > 0 && prev > 0 && lv > 0 && lv < prev {
			if prev-lv > 1 {
				ls = append(ls, "level shrink by >1")
			} else {
				ls = append(ls, "level shrink")
			}
		}
		if lv > 0 || strings.Contains(out[i], "| L=0") {
			prev = lv
		}
		if lv == 32 {
			ls = append(ls, "at level 32")
		}
		t := core.Toks(l)
		res := out[i]
		if j := strings.Index(res, " | "); j >= 0 {
			res = res[:j]
		}
		switch {
		case res == "panic":
			ls = append(ls, "panic")
		case t[0] == "rm" && strings.HasSuffix(res, " true"):
			ls = append(ls, "rm hit")
		case t[0] == "rm":
			ls = append(ls, "rm miss")
		case (t[0] == "rfrom" || t[0] == "rrange") && res != "[]":
			if strings.HasPrefix(res, "["+t[1]+":") {
				ls = append(ls, t[0]+" start present")
			} else {
				ls = append(ls, t[0]+" start absent")
			}
		case t[0] == "setnx" || t[0] == "setx":
			ls = append(ls, t[0]+" "+res)
		case t[0] == "walk" || t[0] == "walkfrom" || t[0] == "hold" || t[0] == "held" || t[0] == "heldset" || t[0] == "heldwalk":
			switch {
			case res == "none" || res == "nil" || res == "[]":
				ls = append(ls, t[0]+" (no node)")
			default:
				ls = append(ls, t[0]+" (node)")
			}
		}
		if strings.HasPrefix(t[0], "seq") || t[0] == "pull2" {
			if res == "none" {
				ls = append(ls, t[0]+" (empty slot)")
			} else {
				ls = append(ls, t[0])
			}
		}
		// a weak-order comparator found a stored key that differs from the argument
		if (t[0] == "getnode" || t[0] == "hold") && res != "nil" && len(t) == 2 && !strings.HasPrefix(res, t[1]+" ") {
			ls = append(ls, "equivalent key found (stored key differs)")
		}
		if i > 0 && strings.Contains(out[i-1], " nil") && strings.Contains(out[i-1], "| L=0") {
			ls = append(ls, "op on uninitialised list: "+t[0])
		}
	}
	return ls
}

// extraHuge runs lists of 20 000–50 000 keys (natural heights and every fourth tower forced to
// height 12…19, so that levels up to 16+ hold thousands of nodes) through the real code and
// the independent oracle only: the Lean model works on lists and is not run at this size (it
// is run on the `large` stream up to 5 000 keys). The reflected towers are validated in place
// after every operation (order, cycles, tower heights, level bookkeeping). Budget: 2 lists in
// quick, 6 in thorough, ×ctx.Escalate (capped) when the anchored code drifted.
func extraHuge(ctx *core.Ctx) (int, string, []core.ExtraFailure) {
	if !hooks {
		return 0, "skipped: private fields not found", nil
	}
	runs := 1 // quick: one list of 20 000–30 000 keys (≈ 3 s); the bigger budget runs in thorough and on anchor drift
	if ctx.Tier == "thorough" {
		runs = 6
	}
	if ctx.Escalate > 1 {
		runs *= 3
	}
	var fails []core.ExtraFailure
	evals, keys := 0, 0
	r := ctx.Rand
	for i := 0; i < runs; i++ {
		c := genHuge(r, i+int(ctx.Seed%2), ctx.Tier == "thorough" || ctx.Escalate > 1)
		out := impl(c)
		evals += len(c.Lines)
		keys += hugeN(c)
		if f := check(c, out); f != nil {
			fails = append(fails, core.ExtraFailure{Failure: *f, Payload: map[string]any{"lines": c.Lines, "impl_out": trimOut(out)}})
			break
		}
	}
	return evals, fmt.Sprintf("%d lists, %d keys inserted in total, Go implementation + independent oracle + in-place tower validation (no Lean model at this size)", runs, keys), fails
}

func trimOut(out []string) []string {
	o := make([]string, len(out))
	for i, l := range out {
		if len(l) > 300 {
			l = l[:300] + "…"
		}
		o[i] = l
	}
	return o
}

func hugeN(c core.Case) int {
	n := 0
	for _, l := range c.Lines {
		if t := core.Toks(l); t[0] == "fill" {
			if a, ok := parseBulk(t); ok {
				n += a.n
			}
		}
	}
	return n
}

func genHuge(r *core.Rand, i int, big bool) core.Case {
	n := r.Range(20000, 30000)
	if big {
		n = r.Range(30000, 50000)
	}
	kind, cmp := "new", "nat"
	if i%2 == 1 {
		kind = "cmp"
		cmp = []string{"nat", "rev", "diff", "sgnhash"}[r.Intn(4)]
	}
	lines := []string{fmt.Sprintf("@ C02 %s int %s vdump", kind, cmp)}
	step := []int{1, 2, 5}[r.Intn(3)]
	lo := []int{0, -n * step / 2}[r.Intn(2)]
	hi := lo + n*step
	probes := func() {
		for j := 0; j*1000 <= n; j++ {
			k := lo + step*j*1000 + r.Range(-1, 1)*step + r.Range(-1, 1)
			switch r.Intn(4) {
			case 0:
				lines = append(lines, fmt.Sprintf("rfrom %d %d", k, r.Range(1, 4)))
			case 1:
				lines = append(lines, fmt.Sprintf("rrange %d %d %d", k, k+r.Range(0, 5)*step, r.Range(0, 7)))
			case 2:
				lines = append(lines, fmt.Sprintf("getnode %d", k))
			case 3:
				lines = append(lines, fmt.Sprintf("rm %d", k), fmt.Sprintf("setnx %d 5 %d", k, wordFor(r, r.Range(1, 24))))
			}
		}
	}
	lines = append(lines, fmt.Sprintf("set %d 7 1", lo), fmt.Sprintf("hold %d", lo))
	for c, cycles := 0, r.Range(2, 3); c < cycles; c++ {
		kindw := []string{"nat", "tall"}[(i+c)%2]
		// two interleaved fills: the second one threads new nodes between existing towers
		lines = append(lines, fmt.Sprintf("fill %d %d %d %d %s", lo, hi, 2*step, r.Uint64(), kindw))
		lines = append(lines, fmt.Sprintf("fill %d %d %d %d %s", lo+step, hi, 2*step, r.Uint64(), []string{"nat", "tall"}[r.Intn(2)]))
		lines = append(lines, "len")
		probes()
		lines = append(lines, "held", "heldset 77")
		if c == 0 {
			lines = append(lines, "keys", "values", "range 0", fmt.Sprintf("walkfrom %d", hi-3*step))
		}
		stride := []int{7, 101, 997, 7919}[r.Intn(4)]
		for gcd(stride, n-1) != 1 {
			stride++
		}
		switch r.Intn(3) {
		case 0:
			lines = append(lines, fmt.Sprintf("rmrange %d %d %d desc 1", lo+step, hi, step))
		case 1:
			lines = append(lines, fmt.Sprintf("rmrange %d %d %d stride %d", lo+step, hi, step, stride))
		case 2:
			mid := lo + step*(n/2)
			lines = append(lines, fmt.Sprintf("rmrange %d %d %d desc 1", mid, hi, step), "len", fmt.Sprintf("rfrom %d 2", mid-2*step),
				fmt.Sprintf("rmrange %d %d %d asc 1", lo+step, mid, step))
		}
		lines = append(lines, "len", "held", "range 2")
		if c%2 == 0 {
			lines = append(lines, "clear", "len", fmt.Sprintf("set %d 7 %d", lo, wordFor(r, r.Range(1, 20))), fmt.Sprintf("hold %d", lo))
		}
	}
	lines = append(lines, "head", "all 3", "len")
	return core.Case{Lines: lines, Tag: "huge"}
}
