package c13

import (
	"container/list"
	"fmt"
	"strconv"
	"strings"

	"github.com/welllog/golib/listz"

	"verifharness/internal/core"
)

// ---------------------------------------------------------------- implementation side

type dImpl[T any] struct {
	c   codec[T]
	big bool
	l   []*listz.DList[T] // two or three lists sharing the node handles
	h   []*listz.DNode[T] // handle id -> node; ids 0,1 are the sentinels (never used as handles)
	ids map[*listz.DNode[T]]int
}

func (d *dImpl[T]) reg(e *listz.DNode[T]) int {
	if e == nil {
		return -1
	}
	if id, ok := d.ids[e]; ok {
		return id
	}
	id := len(d.h)
	d.h = append(d.h, e)
	d.ids[e] = id
	return id
}

func (d *dImpl[T]) show(e *listz.DNode[T]) string {
	if e == nil {
		return "nil"
	}
	if id, ok := d.ids[e]; ok {
		return strconv.Itoa(id)
	}
	return "?"
}

func (d *dImpl[T]) dump(l *listz.DList[T]) string {
	var f, b, v []string
	n := 0
	for e := l.Front(); e != nil; e = e.Next() {
		if n == walkCap {
			f = append(f, "!")
			break
		}
		f = append(f, d.show(e))
		n++
	}
	n = 0
	for e := l.Back(); e != nil; e = e.Prev() {
		if n == walkCap {
			b = append(b, "!")
			break
		}
		b = append(b, d.show(e))
		n++
	}
	n = 0
	for x := range l.All() {
		if n == walkCap {
			v = append(v, "!")
			break
		}
		v = append(v, strconv.Itoa(d.c.dec(x)))
		n++
	}
	if !breakOK(mapSeq(l.All(), d.c.dec), v) {
		v = append(v, "all-break!")
	}
	return fmt.Sprintf("%d f[%s] b[%s] v[%s]", l.Len(), strings.Join(f, " "), strings.Join(b, " "), strings.Join(v, " "))
}

// breakOK: iter.go — an early break must stop the iterator after exactly the yielded prefix;
// tried at every position class: after 1, 2, n/2, n-2, n-1 values (and never, by the caller).
func breakOK(seq func(func(int) bool), v []string) bool {
	n := len(v)
	for _, k := range []int{1, 2, n / 2, n - 2, n - 1} {
		if k <= 0 || k >= n {
			continue
		}
		cnt := 0
		for x := range seq {
			if strconv.Itoa(x) != v[cnt] {
				return false
			}
			cnt++
			if cnt == k {
				break
			}
		}
		if cnt != k {
			return false
		}
	}
	return true
}

// ---- digests of long traversals (header flag `big`): count and polynomial hash

const (
	bigCap    = 200000
	digestMod = 2147483647
)

type digest struct {
	n   int
	h   uint64
	cut bool
}

func (g *digest) add(x int) {
	m := ((int64(x)+11)%digestMod + digestMod) % digestMod
	g.n++
	g.h = (g.h*1000003 + uint64(m)) % digestMod
}

func (g *digest) String() string {
	s := fmt.Sprintf("%d:%d", g.n, g.h)
	if g.cut {
		s += "!"
	}
	return s
}

func (d *dImpl[T]) idOf(e *listz.DNode[T]) int {
	if id, ok := d.ids[e]; ok {
		return id
	}
	return -5
}

func (d *dImpl[T]) dumpBig(l *listz.DList[T]) string {
	var f, b, v, v2 digest
	for e := l.Front(); e != nil; e = e.Next() {
		if f.n == bigCap {
			f.cut, v.cut = true, true
			break
		}
		f.add(d.idOf(e))
		v.add(d.c.dec(e.Value))
	}
	for e := l.Back(); e != nil; e = e.Prev() {
		if b.n == bigCap {
			b.cut = true
			break
		}
		b.add(d.idOf(e))
	}
	// iter.go: full iteration and early breaks at every position class must agree with Front/Next
	n := f.n
	for x := range l.All() {
		if v2.n == bigCap {
			v2.cut = true
			break
		}
		v2.add(d.c.dec(x))
	}
	vs := v.String()
	if v2.String() != vs {
		vs += "all!"
	}
	for _, k := range []int{1, 2, n / 2, n - 2, n - 1} {
		if k <= 0 || k >= n {
			continue
		}
		cnt, e := 0, l.Front()
		ok := true
		for x := range l.All() {
			if e == nil || d.c.dec(x) != d.c.dec(e.Value) {
				ok = false
				break
			}
			e = e.Next()
			cnt++
			if cnt == k {
				break
			}
		}
		if !ok || cnt != k {
			vs += "all-break!"
			break
		}
	}
	return fmt.Sprintf("%d f~%s b~%s v~%s", l.Len(), f.String(), b.String(), vs)
}

func (d *dImpl[T]) dumpAll() string {
	if d.big {
		return joinDumps(len(d.l), func(i int) string { return d.dumpBig(d.l[i]) })
	}
	return joinDumps(len(d.l), func(i int) string { return d.dump(d.l[i]) })
}

func joinDumps(n int, f func(int) string) string {
	var s []string
	for i := 0; i < n; i++ {
		s = append(s, f(i))
	}
	return strings.Join(s, " | ")
}

// nLists: number of lists named by the header tokens after `dlist` (kinds z|n), 0 if malformed.
func nLists(h []string) (int, bool) {
	n := 0
	for n < len(h) && (h[n] == "z" || h[n] == "n") {
		n++
	}
	rest := h[n:]
	if (n != 2 && n != 3) || !(len(rest) == 0 || len(rest) == 1 && rest[0] == "big") {
		return 0, false
	}
	return n, len(rest) == 1
}

func listIdx(t string) int {
	switch t {
	case "A":
		return 0
	case "B":
		return 1
	case "C":
		return 2
	}
	return -1
}

// implD runs the case on DList[T] for the element type named by the header token `ty=…`.
func implD(c core.Case) []string {
	switch tyOf(c) {
	case "string":
		return implDT(c, strCodec)
	case "float":
		return implDT(c, floatCodec)
	case "slice":
		return implDT(c, sliceCodec)
	case "any":
		return implDT(c, anyCodec)
	case "unit":
		return implDT(c, unitCodec)
	case "fstruct":
		return implDT(c, fstructCodec)
	}
	return implDT(c, intCodec)
}

func implDT[T any](c core.Case, cd codec[T]) []string {
	d := &dImpl[T]{c: cd, ids: map[*listz.DNode[T]]int{}}
	return core.RunOps(c,
		func(hdr []string) string {
			hdr = dropTy(hdr)
			n, big := nLists(hdr[1:])
			if n == 0 {
				return "bad-op"
			}
			d.big = big
			for i := 0; i < n; i++ {
				if hdr[1+i] == "z" {
					d.l = append(d.l, new(listz.DList[T]))
				} else {
					d.l = append(d.l, listz.NewDoubly[T]())
				}
				d.h = append(d.h, nil) // the sentinels take the first ids
			}
			return "ok | " + d.dumpAll()
		},
		func(t []string) string {
			r := d.step(t)
			if r == "bad-op" {
				return r
			}
			return r + " | " + d.dumpAll()
		})
}

func (d *dImpl[T]) handle(t string) *listz.DNode[T] {
	h, err := strconv.Atoi(t)
	if err != nil || h < len(d.l) || h >= len(d.h) || strings.HasPrefix(t, "+") {
		return nil
	}
	return d.h[h]
}

// wellFormed: t is a plain protocol line whose handles exist now (what the Lean driver parses).
func (d *dImpl[T]) wellFormed(t []string) bool {
	sig, ok := dArity[firstOr(t)]
	if !ok || len(t) != 1+len(sig) {
		return false
	}
	for i, k := range sig {
		a := t[1+i]
		switch k {
		case 'l':
			if listIdx(a) < 0 || listIdx(a) >= len(d.l) {
				return false
			}
		case 'v':
			if _, err := strconv.Atoi(a); err != nil {
				return false
			}
		case 'h':
			if d.handle(a) == nil {
				return false
			}
		}
	}
	return true
}

func firstOr(t []string) string {
	if len(t) == 0 {
		return ""
	}
	return t[0]
}

var dArity = map[string]string{
	"new": "v", "init": "l", "pf": "lv", "pb": "lv", "ib": "lvh", "ia": "lvh",
	"pfn": "lh", "pbn": "lh", "inb": "lhh", "ina": "lhh", "mtf": "lh", "mtb": "lh",
	"mb": "lhh", "ma": "lhh", "rm": "lh", "pbl": "ll", "pfl": "ll", "front": "l", "back": "l", "len": "l",
	"next": "h", "prev": "h", "setv": "hv",
}

func (d *dImpl[T]) step(t []string) string {
	if len(t) == 0 {
		return "bad-op"
	}
	op := t[0]
	if op == "pushn" || op == "removen" || op == "removebn" {
		if len(t) != 3 || listIdx(t[1]) < 0 || listIdx(t[1]) >= len(d.l) {
			return "bad-op"
		}
		k, err := strconv.Atoi(t[2])
		if err != nil || k < 0 || strings.HasPrefix(t[2], "+") || strings.HasPrefix(t[2], "-") {
			return "bad-op"
		}
		l := d.l[listIdx(t[1])]
		for i := 0; i < k; i++ {
			switch op {
			case "pushn":
				d.reg(l.PushBack(d.c.enc(i % 10)))
			case "removen":
				if e := l.Front(); e != nil {
					l.Remove(e)
				}
			default:
				if e := l.Back(); e != nil {
					l.Remove(e)
				}
			}
		}
		return "ok"
	}
	if op == "allbody" || op == "walkbody" {
		if len(t) < 2 || listIdx(t[1]) < 0 || listIdx(t[1]) >= len(d.l) {
			return "bad-op"
		}
		acts, brk, ok := parseScript(t[2:])
		if !ok {
			return "bad-op"
		}
		for _, as := range acts {
			for _, a := range as {
				if !d.wellFormed(a) {
					return "bad-op"
				}
			}
		}
		l := d.l[listIdx(t[1])]
		var ys []string
		n := 0
		body := func() bool { // false = stop
			for _, a := range acts[n] {
				d.step(a)
			}
			if brk[n] {
				return false
			}
			n++
			return true
		}
		if op == "allbody" {
			for v := range l.All() {
				if n == bigCap {
					ys = append(ys, "!")
					break
				}
				ys = append(ys, strconv.Itoa(d.c.dec(v)))
				if !body() {
					break
				}
			}
		} else {
			for e := l.Front(); e != nil; e = e.Next() {
				if n == bigCap {
					ys = append(ys, "!")
					break
				}
				ys = append(ys, d.show(e))
				if !body() {
					break
				}
			}
		}
		return "y[" + strings.Join(ys, " ") + "]"
	}
	sig, ok := dArity[op]
	if !ok || len(t) != 1+len(sig) {
		return "bad-op"
	}
	var ls []*listz.DList[T]
	var hs []*listz.DNode[T]
	v := 0
	for i, k := range sig {
		a := t[1+i]
		switch k {
		case 'l':
			x := listIdx(a)
			if x < 0 || x >= len(d.l) {
				return "bad-op"
			}
			ls = append(ls, d.l[x])
		case 'v':
			x, err := strconv.Atoi(a)
			if err != nil {
				return "bad-op"
			}
			v = x
		case 'h':
			e := d.handle(a)
			if e == nil {
				return "bad-op"
			}
			hs = append(hs, e)
		}
	}
	switch op {
	case "new":
		return strconv.Itoa(d.reg(&listz.DNode[T]{Value: d.c.enc(v)}))
	case "init":
		ls[0].Init()
		return "ok"
	case "pf":
		e := ls[0].PushFront(d.c.enc(v))
		d.reg(e)
		return d.show(e)
	case "pb":
		e := ls[0].PushBack(d.c.enc(v))
		d.reg(e)
		return d.show(e)
	case "ib":
		e := ls[0].InsertBefore(d.c.enc(v), hs[0])
		d.reg(e)
		return d.show(e)
	case "ia":
		e := ls[0].InsertAfter(d.c.enc(v), hs[0])
		d.reg(e)
		return d.show(e)
	case "pfn":
		ls[0].PushFrontNode(hs[0])
	case "pbn":
		ls[0].PushBackNode(hs[0])
	case "inb":
		ls[0].InsertNodeBefore(hs[0], hs[1])
	case "ina":
		ls[0].InsertNodeAfter(hs[0], hs[1])
	case "mtf":
		ls[0].MoveToFront(hs[0])
	case "mtb":
		ls[0].MoveToBack(hs[0])
	case "mb":
		ls[0].MoveBefore(hs[0], hs[1])
	case "ma":
		ls[0].MoveAfter(hs[0], hs[1])
	case "rm":
		return strconv.Itoa(d.c.dec(ls[0].Remove(hs[0])))
	case "pbl":
		n := ls[1].Len()
		ls[0].PushBackDList(ls[1])
		// the n copies were allocated front to back: they are the last n nodes
		var cs []*listz.DNode[T]
		e := ls[0].Back()
		for i := 0; i < n && e != nil; i++ {
			cs = append(cs, e)
			e = e.Prev()
		}
		for i := len(cs) - 1; i >= 0; i-- {
			d.reg(cs[i])
		}
	case "pfl":
		n := ls[1].Len()
		ls[0].PushFrontDList(ls[1])
		// the n copies were allocated back to front: the first allocated is the n-th node
		var cs []*listz.DNode[T]
		e := ls[0].Front()
		for i := 0; i < n && e != nil; i++ {
			cs = append(cs, e)
			e = e.Next()
		}
		for i := len(cs) - 1; i >= 0; i-- {
			d.reg(cs[i])
		}
	case "setv":
		hs[0].Value = d.c.enc(v) // the caller owns Value; the list must not depend on it
	case "len":
		return strconv.Itoa(ls[0].Len())
	case "front":
		return d.show(ls[0].Front())
	case "back":
		return d.show(ls[0].Back())
	case "next":
		return d.show(hs[0].Next())
	case "prev":
		return d.show(hs[0].Prev())
	}
	return "ok"
}

// ---------------------------------------------------------------- independent oracle: container/list

type dRef struct {
	big bool
	l   []*list.List
	h   []*list.Element // handle id -> element (stale elements are kept: container/list guards them itself)
	id  map[*list.Element]int
}

func (d *dRef) reg(e *list.Element) int {
	id := len(d.h)
	d.h = append(d.h, e)
	d.id[e] = id
	return id
}

func (d *dRef) show(e *list.Element) string {
	if e == nil {
		return "nil"
	}
	return strconv.Itoa(d.id[e])
}

func (d *dRef) dump(l *list.List) string {
	var f, b, v []string
	for e := l.Front(); e != nil; e = e.Next() {
		f = append(f, d.show(e))
		v = append(v, strconv.Itoa(e.Value.(int)))
	}
	for e := l.Back(); e != nil; e = e.Prev() {
		b = append(b, d.show(e))
	}
	return fmt.Sprintf("%d f[%s] b[%s] v[%s]", l.Len(), strings.Join(f, " "), strings.Join(b, " "), strings.Join(v, " "))
}

func (d *dRef) dumpBig(l *list.List) string {
	var f, b, v digest
	for e := l.Front(); e != nil; e = e.Next() {
		if f.n == bigCap {
			f.cut, v.cut = true, true
			break
		}
		f.add(d.id[e])
		v.add(e.Value.(int))
	}
	for e := l.Back(); e != nil; e = e.Prev() {
		if b.n == bigCap {
			b.cut = true
			break
		}
		b.add(d.id[e])
	}
	return fmt.Sprintf("%d f~%s b~%s v~%s", l.Len(), f.String(), b.String(), v.String())
}

func (d *dRef) dumpAll() string {
	if d.big {
		return joinDumps(len(d.l), func(i int) string { return d.dumpBig(d.l[i]) })
	}
	return joinDumps(len(d.l), func(i int) string { return d.dump(d.l[i]) })
}

// live reports whether the element is currently linked into one of the two lists.
func (d *dRef) live(e *list.Element) bool {
	for _, l := range d.l {
		for x := l.Front(); x != nil; x = x.Next() {
			if x == e {
				return true
			}
		}
	}
	return false
}

func (d *dRef) in(l *list.List, e *list.Element) bool {
	for x := l.Front(); x != nil; x = x.Next() {
		if x == e {
			return true
		}
	}
	return false
}

// rebind: the node with handle id of `old` is (re-)inserted: container/list creates a new
// element for it, the handle now denotes that element.
func (d *dRef) rebind(old, nu *list.Element) {
	id := d.id[old]
	delete(d.id, old)
	d.h[id] = nu
	d.id[nu] = id
}

func checkD(c core.Case, out []string) *core.Failure {
	hdr := dropTy(core.Toks(c.Lines[0]))
	if len(hdr) < 3 {
		return nil
	}
	nl, big := nLists(hdr[3:])
	if nl == 0 {
		return nil
	}
	d := &dRef{id: map[*list.Element]int{}, big: big}
	for i := 0; i < nl; i++ {
		d.l = append(d.l, list.New())
		d.h = append(d.h, nil)
	}
	want := "ok | " + d.dumpAll()
	if out[0] != want {
		return &core.Failure{Key: "dlist-zero-value", Desc: fmt.Sprintf("fresh lists: implementation %q, container/list %q", out[0], want)}
	}
	// exec runs one plain protocol line on container/list; ok = false: malformed or unspecified
	exec := func(t []string) (string, bool) {
		var ls []*list.List
		var hs []*list.Element
		v := 0
		bad := false
		for _, a := range t[1:] {
			if x := listIdx(a); x >= 0 && x < nl {
				ls = append(ls, d.l[x])
			} else if n, err := strconv.Atoi(a); err == nil {
				v = n
				if n >= nl && n < len(d.h) {
					hs = append(hs, d.h[n])
				} else {
					hs = append(hs, nil)
				}
			} else {
				bad = true
			}
		}
		need := map[string][2]int{"new": {0, 0}, "init": {1, 0}, "pf": {1, 0}, "pb": {1, 0}, "ib": {1, 1}, "ia": {1, 1},
			"pfn": {1, 1}, "pbn": {1, 1}, "inb": {1, 2}, "ina": {1, 2}, "mtf": {1, 1}, "mtb": {1, 1}, "mb": {1, 2}, "ma": {1, 2},
			"rm": {1, 1}, "pbl": {2, 0}, "pfl": {2, 0}, "front": {1, 0}, "back": {1, 0}, "len": {1, 0}, "next": {0, 1}, "prev": {0, 1}, "setv": {0, 1}}
		nd, ok := need[t[0]]
		if !ok || bad || len(ls) != nd[0] {
			return "", false // malformed line: nothing to say
		}
		// handles are the trailing nd[1] integers
		if len(hs) < nd[1] {
			return "", false
		}
		hs = hs[len(hs)-nd[1]:]
		for _, e := range hs {
			if e == nil {
				return "", false
			}
		}
		if t[0] == "pf" || t[0] == "pb" || t[0] == "new" {
			v, _ = strconv.Atoi(t[len(t)-1])
		}
		if t[0] == "ib" || t[0] == "ia" {
			v, _ = strconv.Atoi(t[2])
		}
		if t[0] == "setv" { // `setv h v`: the handle is the first integer
			v, _ = strconv.Atoi(t[2])
			if n, err := strconv.Atoi(t[1]); err != nil || n < nl || n >= len(d.h) {
				return "", false
			} else {
				hs = []*list.Element{d.h[n]}
			}
		}
		res := "ok"
		switch t[0] {
		case "new":
			res = strconv.Itoa(d.reg(&list.Element{Value: v}))
		case "init":
			if ls[0].Len() != 0 {
				return "", false // unspecified: orphaned nodes
			}
			ls[0].Init()
		case "pf":
			res = strconv.Itoa(d.reg(ls[0].PushFront(v)))
		case "pb":
			res = strconv.Itoa(d.reg(ls[0].PushBack(v)))
		case "ib":
			if e := ls[0].InsertBefore(v, hs[0]); e != nil {
				res = strconv.Itoa(d.reg(e))
			} else {
				res = "nil"
			}
		case "ia":
			if e := ls[0].InsertAfter(v, hs[0]); e != nil {
				res = strconv.Itoa(d.reg(e))
			} else {
				res = "nil"
			}
		case "pfn", "pbn":
			if d.live(hs[0]) {
				return "", false // undocumented misuse: node still linked
			}
			if t[0] == "pfn" {
				d.rebind(hs[0], ls[0].PushFront(hs[0].Value))
			} else {
				d.rebind(hs[0], ls[0].PushBack(hs[0].Value))
			}
		case "inb", "ina":
			if d.in(ls[0], hs[1]) {
				if d.live(hs[0]) {
					return "", false
				}
				if t[0] == "inb" {
					d.rebind(hs[0], ls[0].InsertBefore(hs[0].Value, hs[1]))
				} else {
					d.rebind(hs[0], ls[0].InsertAfter(hs[0].Value, hs[1]))
				}
			}
		case "mtf":
			ls[0].MoveToFront(hs[0])
		case "mtb":
			ls[0].MoveToBack(hs[0])
		case "mb":
			ls[0].MoveBefore(hs[0], hs[1])
		case "ma":
			ls[0].MoveAfter(hs[0], hs[1])
		case "rm":
			res = strconv.Itoa(ls[0].Remove(hs[0]).(int))
		case "pbl":
			n := ls[1].Len()
			ls[0].PushBackList(ls[1])
			var cs []*list.Element
			for e, k := ls[0].Back(), 0; k < n; e, k = e.Prev(), k+1 {
				cs = append(cs, e)
			}
			for k := len(cs) - 1; k >= 0; k-- {
				d.reg(cs[k])
			}
		case "pfl":
			n := ls[1].Len()
			ls[0].PushFrontList(ls[1])
			var cs []*list.Element
			for e, k := ls[0].Front(), 0; k < n; e, k = e.Next(), k+1 {
				cs = append(cs, e)
			}
			for k := len(cs) - 1; k >= 0; k-- {
				d.reg(cs[k])
			}
		case "setv":
			hs[0].Value = v
		case "len":
			res = strconv.Itoa(ls[0].Len())
		case "front":
			res = d.show(ls[0].Front())
		case "back":
			res = d.show(ls[0].Back())
		case "next":
			res = d.show(hs[0].Next())
		case "prev":
			res = d.show(hs[0].Prev())
		}
		return res, true
	}
	for i := 1; i < len(c.Lines); i++ {
		t := core.Toks(c.Lines[i])
		if len(t) == 0 {
			return nil
		}
		if t[0] == "pushn" || t[0] == "removen" || t[0] == "removebn" {
			if len(t) != 3 || listIdx(t[1]) < 0 || listIdx(t[1]) >= nl {
				return nil
			}
			k, err := strconv.Atoi(t[2])
			if err != nil || k < 0 {
				return nil
			}
			l := d.l[listIdx(t[1])]
			for n := 0; n < k; n++ {
				switch t[0] {
				case "pushn":
					d.reg(l.PushBack(n % 10))
				case "removen":
					if e := l.Front(); e != nil {
						l.Remove(e)
					}
				default:
					if e := l.Back(); e != nil {
						l.Remove(e)
					}
				}
			}
			if want := "ok | " + d.dumpAll(); out[i] != want {
				return &core.Failure{Key: "dlist-" + t[0], Desc: fmt.Sprintf("op %d %q: implementation answered %q, container/list gives %q", i, c.Lines[i], clip(out[i]), clip(want))}
			}
			continue
		}
		if t[0] == "allbody" || t[0] == "walkbody" {
			if len(t) < 2 || listIdx(t[1]) < 0 || listIdx(t[1]) >= nl {
				return nil
			}
			acts, brk, ok := parseScript(t[2:])
			if !ok {
				return nil
			}
			for _, as := range acts { // handles must exist when the loop starts (as the drivers parse)
				for _, a := range as {
					sig, ok := dArity[firstOr(a)]
					if !ok || len(a) != 1+len(sig) {
						return nil
					}
					for j, kd := range sig {
						if kd == 'h' {
							if x, err := strconv.Atoi(a[1+j]); err != nil || x < nl || x >= len(d.h) {
								return nil
							}
						}
					}
				}
			}
			// the idiomatic container/list loop: Next is evaluated AFTER the body
			var ys []string
			n := 0
			for e := d.l[listIdx(t[1])].Front(); e != nil; e = e.Next() {
				if n == bigCap {
					ys = append(ys, "!")
					break
				}
				if t[0] == "allbody" {
					ys = append(ys, strconv.Itoa(e.Value.(int)))
				} else {
					ys = append(ys, d.show(e))
				}
				for _, a := range acts[n] {
					if _, ok := exec(a); !ok {
						return nil
					}
				}
				if brk[n] {
					break
				}
				n++
			}
			want := "y[" + strings.Join(ys, " ") + "] | " + d.dumpAll()
			if out[i] != want {
				return &core.Failure{Key: "dlist-" + t[0], Desc: fmt.Sprintf("op %d %q: implementation answered %q, the container/list loop `for e := l.Front(); e != nil; e = e.Next()` gives %q", i, c.Lines[i], clip(out[i]), clip(want))}
			}
			continue
		}
		res, ok := exec(t)
		if !ok {
			return nil
		}
		want := res + " | " + d.dumpAll()
		if out[i] != want {
			return &core.Failure{Key: "dlist-" + t[0], Desc: fmt.Sprintf("op %d %q: implementation answered %q, container/list gives %q", i, c.Lines[i], clip(out[i]), clip(want))}
		}
	}
	return nil
}

// parseScript: tokens `k:op:args…` and `k:break` of a loop-body script.
func parseScript(toks []string) (map[int][][]string, map[int]bool, bool) {
	acts, brk := map[int][][]string{}, map[int]bool{}
	for _, tok := range toks {
		f := strings.Split(tok, ":")
		if len(f) < 2 {
			return nil, nil, false
		}
		k, err := strconv.Atoi(f[0])
		if err != nil || k < 0 || strings.HasPrefix(f[0], "+") || strings.HasPrefix(f[0], "-") {
			return nil, nil, false
		}
		if len(f) == 2 && f[1] == "break" {
			brk[k] = true
			continue
		}
		acts[k] = append(acts[k], f[1:])
	}
	return acts, brk, true
}

func clip(s string) string {
	if len(s) > 600 {
		return s[:600] + "…"
	}
	return s
}

// ---------------------------------------------------------------- generator

type dSim struct {
	l    [2][]int
	det  []int // detached node ids
	next int
}

func (g *dSim) where(id int) int {
	for k := 0; k < 2; k++ {
		for _, x := range g.l[k] {
			if x == id {
				return k
			}
		}
	}
	return -1
}

func del(s []int, id int) []int {
	for i, x := range s {
		if x == id {
			return append(append([]int{}, s[:i]...), s[i+1:]...)
		}
	}
	return s
}

func insAt(s []int, i int, id int) []int {
	r := append([]int{}, s[:i]...)
	r = append(r, id)
	return append(r, s[i:]...)
}

func idxOf(s []int, id int) int {
	for i, x := range s {
		if x == id {
			return i
		}
	}
	return -1
}

// pick chooses a handle for an operation on list k: 60% live in k, 25% removed, 15% foreign.
func (g *dSim) pick(r *core.Rand, k int) int {
	if g.next <= 2 {
		return -1
	}
	for try := 0; try < 4; try++ {
		switch r.Pick(60, 25, 15) {
		case 0:
			if n := len(g.l[k]); n > 0 {
				// bias towards the ends
				switch r.Pick(2, 2, 6) {
				case 0:
					return g.l[k][0]
				case 1:
					return g.l[k][n-1]
				}
				return g.l[k][r.Intn(n)]
			}
		case 1:
			if n := len(g.det); n > 0 {
				return g.det[r.Intn(n)]
			}
		case 2:
			if n := len(g.l[1-k]); n > 0 {
				return g.l[1-k][r.Intn(n)]
			}
		}
	}
	return 2 + r.Intn(g.next-2)
}

func genD(r *core.Rand, tier string) core.Case {
	kinds := []string{"z", "n"}
	lines := []string{fmt.Sprintf("@ C13 dlist %s %s", kinds[r.Intn(2)], kinds[r.Intn(2)])}
	g := &dSim{next: 2}
	names := []string{"A", "B"}
	n := r.Range(1, 45)
	if r.Chance(15) {
		n = r.Range(1, 8) // many tiny lists: every size 0..3 at every position
	}
	// most cases start from a few elements so that relative operations have something to act on
	if r.Chance(70) {
		for i, m := 0, r.Range(2, 6); i < m; i++ {
			k := 0
			if r.Chance(35) {
				k = 1
			}
			lines = append(lines, fmt.Sprintf("pb %s %d", names[k], r.Range(0, 9)))
			g.l[k] = append(g.l[k], g.next)
			g.next++
		}
		n += len(lines) - 1
	}
	for len(lines) <= n {
		k := 0
		if r.Chance(30) {
			k = 1
		}
		L := names[k]
		v := r.Range(0, 9)
		switch r.Pick(10, 12, 7, 7, 3, 3, 3, 3, 3, 7, 7, 8, 8, 12, 3, 3, 1, 1, 2, 2, 1, 5, 4) {
		case 0:
			lines = append(lines, fmt.Sprintf("pf %s %d", L, v))
			g.l[k] = insAt(g.l[k], 0, g.next)
			g.next++
		case 1:
			lines = append(lines, fmt.Sprintf("pb %s %d", L, v))
			g.l[k] = append(g.l[k], g.next)
			g.next++
		case 2, 3:
			m := g.pick(r, k)
			if m < 0 {
				continue
			}
			op, off := "ib", 0
			if r.Bool() {
				op, off = "ia", 1
			}
			lines = append(lines, fmt.Sprintf("%s %s %d %d", op, L, v, m))
			if i := idxOf(g.l[k], m); i >= 0 {
				g.l[k] = insAt(g.l[k], i+off, g.next)
				g.next++
			}
		case 4:
			lines = append(lines, fmt.Sprintf("new %d", v))
			g.det = append(g.det, g.next)
			g.next++
		case 5, 6:
			if len(g.det) == 0 {
				continue
			}
			e := g.det[r.Intn(len(g.det))]
			g.det = del(g.det, e)
			if r.Bool() {
				lines = append(lines, fmt.Sprintf("pfn %s %d", L, e))
				g.l[k] = insAt(g.l[k], 0, e)
			} else {
				lines = append(lines, fmt.Sprintf("pbn %s %d", L, e))
				g.l[k] = append(g.l[k], e)
			}
		case 7, 8:
			if len(g.det) == 0 {
				continue
			}
			e := g.det[r.Intn(len(g.det))]
			m := g.pick(r, k)
			if m < 0 || m == e {
				continue
			}
			op, off := "inb", 0
			if r.Bool() {
				op, off = "ina", 1
			}
			lines = append(lines, fmt.Sprintf("%s %s %d %d", op, L, e, m))
			if i := idxOf(g.l[k], m); i >= 0 {
				g.det = del(g.det, e)
				g.l[k] = insAt(g.l[k], i+off, e)
			}
		case 9:
			e := g.pick(r, k)
			if e < 0 {
				continue
			}
			lines = append(lines, fmt.Sprintf("mtf %s %d", L, e))
			if idxOf(g.l[k], e) >= 0 {
				g.l[k] = insAt(del(g.l[k], e), 0, e)
			}
		case 10:
			e := g.pick(r, k)
			if e < 0 {
				continue
			}
			lines = append(lines, fmt.Sprintf("mtb %s %d", L, e))
			if idxOf(g.l[k], e) >= 0 {
				g.l[k] = append(del(g.l[k], e), e)
			}
		case 11, 12:
			e, m := g.pick(r, k), g.pick(r, k)
			if e < 0 {
				continue
			}
			if len(g.l[k]) > 0 && r.Chance(50) {
				m = g.l[k][r.Intn(len(g.l[k]))]
			}
			if r.Chance(8) {
				m = e
			}
			op, off := "mb", 0
			if r.Bool() {
				op, off = "ma", 1
			}
			lines = append(lines, fmt.Sprintf("%s %s %d %d", op, L, e, m))
			if e != m && idxOf(g.l[k], e) >= 0 && idxOf(g.l[k], m) >= 0 {
				s := del(g.l[k], e)
				g.l[k] = insAt(s, idxOf(s, m)+off, e)
			}
		case 13:
			e := g.pick(r, k)
			if e < 0 {
				continue
			}
			lines = append(lines, fmt.Sprintf("rm %s %d", L, e))
			if idxOf(g.l[k], e) >= 0 {
				g.l[k] = del(g.l[k], e)
				g.det = append(g.det, e)
			}
		case 14, 15:
			o := r.Intn(2)
			if r.Chance(40) {
				o = k
			}
			if len(g.l[k])+len(g.l[o]) > 60 {
				continue
			}
			cnt := len(g.l[o])
			ids := make([]int, cnt)
			for i := range ids {
				ids[i] = g.next
				g.next++
			}
			if r.Bool() {
				lines = append(lines, fmt.Sprintf("pbl %s %s", L, names[o]))
				g.l[k] = append(append([]int{}, g.l[k]...), ids...)
			} else {
				lines = append(lines, fmt.Sprintf("pfl %s %s", L, names[o]))
				rev := make([]int, cnt)
				for i := range ids {
					rev[cnt-1-i] = ids[i]
				}
				g.l[k] = append(rev, g.l[k]...)
			}
		case 16:
			lines = append(lines, "front "+L)
		case 17:
			if r.Bool() {
				lines = append(lines, "back "+L)
			} else {
				lines = append(lines, "len "+L)
			}
		case 18, 19:
			e := g.pick(r, k)
			if e < 0 {
				continue
			}
			if r.Bool() {
				lines = append(lines, fmt.Sprintf("next %d", e))
			} else {
				lines = append(lines, fmt.Sprintf("prev %d", e))
			}
		case 20:
			if len(g.l[k]) == 0 {
				lines = append(lines, "init "+L)
			}
		case 22: // the caller changes a node's Value through the handle (live, removed or foreign node)
			e := g.pick(r, k)
			if e < 0 {
				continue
			}
			lines = append(lines, fmt.Sprintf("setv %d %d", e, v))
		case 21: // range over the list while the body mutates it through handles
			lines = append(lines, dLoopLine(r, g, k))
		}
	}
	return core.Case{Lines: lines, Tag: "dlist"}
}
