package c13

import (
	"fmt"

	"verifharness/internal/core"
)

// Wave-3 streams: long lists (Tag "large") and phased histories on the same objects (Tag "history").

// sizes that cross the usual internal thresholds
var bigSizes = []int{16, 17, 32, 33, 64, 65, 100, 255, 256, 257, 1024, 1025, 4096, 4097}

func bigSize(r *core.Rand, tier string) int {
	switch r.Pick(5, 3, 2) {
	case 0:
		return bigSizes[r.Intn(len(bigSizes))]
	case 1:
		return r.Range(100, 5000)
	}
	if tier == "thorough" {
		if r.Chance(15) {
			return []int{20000, 65535, 65536, 65537}[r.Intn(4)]
		}
		return r.Range(5000, 20000)
	}
	return r.Range(5000, 12000) // quick: keep the run short on every seed
}

// posClass: an index at one of the position classes 0, 1, n/2, n-2, n-1 (n > 0).
func posClass(r *core.Rand, n int) int {
	c := []int{0, 1, n / 2, n - 2, n - 1}[r.Intn(5)]
	if c < 0 {
		c = 0
	}
	if c >= n {
		c = n - 1
	}
	return c
}

// ---------------------------------------------------------------- DList, long lists

func genDLarge(r *core.Rand, tier string) core.Case {
	kinds := []string{"z", "n"}
	lines := []string{fmt.Sprintf("@ C13 dlist %s %s big", kinds[r.Intn(2)], kinds[r.Intn(2)])}
	g := &dSim{next: 2}
	names := []string{"A", "B"}
	limit := 26000
	if tier == "thorough" {
		limit = 80000
	}
	total := func() int { return len(g.l[0]) + len(g.l[1]) }
	pushn := func(k, n int) {
		lines = append(lines, fmt.Sprintf("pushn %s %d", names[k], n))
		for i := 0; i < n; i++ {
			g.l[k] = append(g.l[k], g.next)
			g.next++
		}
	}
	pushn(0, bigSize(r, tier))
	if r.Chance(50) {
		pushn(1, []int{1, 2, 17, 300}[r.Intn(4)])
	}
	nops := r.Range(3, 9)
	for i := 0; i < nops; i++ {
		k := 0
		if r.Chance(25) {
			k = 1
		}
		L := names[k]
		n := len(g.l[k])
		h := func() int { // a handle of list k at a position class (or a foreign / removed one)
			if n == 0 || r.Chance(8) {
				if len(g.det) > 0 && r.Bool() {
					return g.det[r.Intn(len(g.det))]
				}
				if m := len(g.l[1-k]); m > 0 {
					return g.l[1-k][posClass(r, m)]
				}
				return 2
			}
			return g.l[k][posClass(r, n)]
		}
		switch r.Pick(6, 4, 3, 3, 4, 4, 3, 3, 2, 2, 2) {
		case 0, 1: // copy, mostly onto itself: doubling several times
			o := k
			if r.Chance(30) {
				o = 1 - k
			}
			cnt := len(g.l[o])
			if total()+cnt > limit {
				continue
			}
			ids := make([]int, cnt)
			for j := range ids {
				ids[j] = g.next
				g.next++
			}
			if r.Bool() {
				lines = append(lines, fmt.Sprintf("pbl %s %s", L, names[o]))
				g.l[k] = append(append([]int{}, g.l[k]...), ids...)
			} else {
				lines = append(lines, fmt.Sprintf("pfl %s %s", L, names[o]))
				rev := make([]int, cnt)
				for j := range ids {
					rev[cnt-1-j] = ids[j]
				}
				g.l[k] = append(rev, g.l[k]...)
			}
		case 2:
			e := h()
			if r.Bool() {
				lines = append(lines, fmt.Sprintf("mtf %s %d", L, e))
				if idxOf(g.l[k], e) >= 0 {
					g.l[k] = insAt(del(g.l[k], e), 0, e)
				}
			} else {
				lines = append(lines, fmt.Sprintf("mtb %s %d", L, e))
				if idxOf(g.l[k], e) >= 0 {
					g.l[k] = append(del(g.l[k], e), e)
				}
			}
		case 3:
			e, m := h(), h()
			op, off := "mb", 0
			if r.Bool() {
				op, off = "ma", 1
			}
			lines = append(lines, fmt.Sprintf("%s %s %d %d", op, L, e, m))
			if e != m && idxOf(g.l[k], e) >= 0 && idxOf(g.l[k], m) >= 0 {
				s := del(g.l[k], e)
				g.l[k] = insAt(s, idxOf(s, m)+off, e)
			}
		case 4:
			e := h()
			lines = append(lines, fmt.Sprintf("rm %s %d", L, e))
			if idxOf(g.l[k], e) >= 0 {
				g.l[k] = del(g.l[k], e)
				g.det = append(g.det, e)
			}
		case 5:
			m := h()
			op, off := "ib", 0
			if r.Bool() {
				op, off = "ia", 1
			}
			lines = append(lines, fmt.Sprintf("%s %s %d %d", op, L, r.Range(0, 9), m))
			if j := idxOf(g.l[k], m); j >= 0 {
				g.l[k] = insAt(g.l[k], j+off, g.next)
				g.next++
			}
		case 6: // re-insert a removed node through a *Node entry point
			if len(g.det) == 0 {
				continue
			}
			e := g.det[r.Intn(len(g.det))]
			switch r.Intn(3) {
			case 0:
				g.det = del(g.det, e)
				lines = append(lines, fmt.Sprintf("pfn %s %d", L, e))
				g.l[k] = insAt(g.l[k], 0, e)
			case 1:
				g.det = del(g.det, e)
				lines = append(lines, fmt.Sprintf("pbn %s %d", L, e))
				g.l[k] = append(g.l[k], e)
			default:
				m := h()
				if m == e {
					continue
				}
				op, off := "inb", 0
				if r.Bool() {
					op, off = "ina", 1
				}
				lines = append(lines, fmt.Sprintf("%s %s %d %d", op, L, e, m))
				if j := idxOf(g.l[k], m); j >= 0 {
					g.det = del(g.det, e)
					g.l[k] = insAt(g.l[k], j+off, e)
				}
			}
		case 7: // bulk removal from either end (possibly draining the list), then it is reused
			cnt := []int{1, n / 2, n - 1, n, n + 3}[r.Intn(5)]
			if cnt < 0 {
				cnt = 0
			}
			if r.Bool() {
				lines = append(lines, fmt.Sprintf("removen %s %d", L, cnt))
				for j := 0; j < cnt && len(g.l[k]) > 0; j++ {
					g.det = append(g.det, g.l[k][0])
					g.l[k] = g.l[k][1:]
				}
			} else {
				lines = append(lines, fmt.Sprintf("removebn %s %d", L, cnt))
				for j := 0; j < cnt && len(g.l[k]) > 0; j++ {
					m := len(g.l[k]) - 1
					g.det = append(g.det, g.l[k][m])
					g.l[k] = g.l[k][:m]
				}
			}
			if len(g.det) > 64 {
				g.det = g.det[len(g.det)-64:]
			}
		case 8:
			if total()+600 > limit {
				continue
			}
			pushn(k, r.Range(1, 600))
		case 9:
			e := h()
			if r.Bool() {
				lines = append(lines, fmt.Sprintf("next %d", e))
			} else {
				lines = append(lines, fmt.Sprintf("prev %d", e))
			}
		case 10:
			lines = append(lines, []string{"front ", "back ", "len "}[r.Intn(3)]+L)
		}
	}
	return core.Case{Lines: lines, Tag: "large"}
}

// ---------------------------------------------------------------- DList, histories

func genDHistory(r *core.Rand, tier string) core.Case {
	kinds := []string{"z", "n"}
	lines := []string{fmt.Sprintf("@ C13 dlist %s %s", kinds[r.Intn(2)], kinds[r.Intn(2)])}
	g := &dSim{next: 2}
	names := []string{"A", "B"}
	add := func(f string, a ...any) { lines = append(lines, fmt.Sprintf(f, a...)) }
	pb := func(k int) {
		add("pb %s %d", names[k], r.Range(0, 9))
		g.l[k] = append(g.l[k], g.next)
		g.next++
	}
	for i, m := 0, r.Range(1, 5); i < m; i++ {
		pb(0)
	}
	for i, m := 0, r.Range(0, 3); i < m; i++ {
		pb(1)
	}
	// put detached node e into list k through one of the four *Node entry points
	reinsert := func(k, e int) {
		L := names[k]
		n := len(g.l[k])
		c := r.Intn(4)
		if n == 0 && c >= 2 {
			c = r.Intn(2)
		}
		switch c {
		case 0:
			add("pfn %s %d", L, e)
			g.l[k] = insAt(g.l[k], 0, e)
		case 1:
			add("pbn %s %d", L, e)
			g.l[k] = append(g.l[k], e)
		case 2:
			j := posClass(r, n)
			add("inb %s %d %d", L, e, g.l[k][j])
			g.l[k] = insAt(g.l[k], j, e)
		default:
			j := posClass(r, n)
			add("ina %s %d %d", L, e, g.l[k][j])
			g.l[k] = insAt(g.l[k], j+1, e)
		}
	}
	// use node e of list k as a handle: every guarded operation must see it as a member
	probe := func(k, e int) {
		L := names[k]
		switch r.Intn(8) {
		case 0:
			add("next %d", e)
		case 1:
			add("prev %d", e)
		case 2:
			add("mtf %s %d", L, e)
			g.l[k] = insAt(del(g.l[k], e), 0, e)
		case 3:
			add("mtb %s %d", L, e)
			g.l[k] = append(del(g.l[k], e), e)
		case 4:
			add("ib %s %d %d", L, r.Range(0, 9), e)
			g.l[k] = insAt(g.l[k], idxOf(g.l[k], e), g.next)
			g.next++
		case 5:
			add("ia %s %d %d", L, r.Range(0, 9), e)
			g.l[k] = insAt(g.l[k], idxOf(g.l[k], e)+1, g.next)
			g.next++
		case 6:
			if len(g.l[k]) > 1 {
				m := g.l[k][r.Intn(len(g.l[k]))]
				if m != e {
					add("mb %s %d %d", L, e, m)
					s := del(g.l[k], e)
					g.l[k] = insAt(s, idxOf(s, m), e)
				}
			}
		default:
			if len(g.l[k]) > 1 {
				m := g.l[k][r.Intn(len(g.l[k]))]
				if m != e {
					add("ma %s %d %d", L, m, e) // e as the mark
					s := del(g.l[k], m)
					g.l[k] = insAt(s, idxOf(s, e)+1, m)
				}
			}
		}
	}
	phases := r.Range(2, 5)
	for p := 0; p < phases && len(lines) < 170; p++ {
		k := r.Intn(2)
		L := names[k]
		switch r.Pick(5, 3, 3, 2, 2, 4) {
		case 5: // range over the list, the body mutating it; then the handles are used again
			if len(g.l[k]) < 2 {
				pb(k)
				pb(k)
				pb(k)
			}
			for i, m := 0, r.Range(1, 3); i < m; i++ {
				lines = append(lines, dLoopLine(r, g, k))
			}
			if len(g.l[k]) > 0 {
				probe(k, g.l[k][r.Intn(len(g.l[k]))])
			}
		case 0: // the same node removed and re-inserted many times through the *Node entry points
			if len(g.l[k]) == 0 {
				pb(k)
			}
			e := g.l[k][r.Intn(len(g.l[k]))]
			if r.Chance(25) { // or a node made by the caller
				add("new %d", r.Range(0, 9))
				e = g.next
				g.next++
				reinsert(k, e)
			}
			at := k
			for i, m := 0, r.Range(2, 12); i < m; i++ {
				add("rm %s %d", names[at], e)
				g.l[at] = del(g.l[at], e)
				if r.Chance(20) { // stale handle in between
					add("rm %s %d", names[at], e)
					add("mtf %s %d", names[at], e)
				}
				if r.Chance(30) {
					at = 1 - at
				}
				reinsert(at, e)
				if r.Chance(70) {
					probe(at, e)
				}
			}
		case 1: // move chain
			if len(g.l[k]) < 2 {
				pb(k)
				pb(k)
			}
			for i, m := 0, r.Range(5, 25); i < m; i++ {
				probe(k, g.l[k][r.Intn(len(g.l[k]))])
			}
		case 2: // drain, Init the emptied list, reuse it (also with the removed nodes)
			old := append([]int{}, g.l[k]...)
			if r.Bool() {
				add("removen %s %d", L, len(old)+r.Intn(2))
			} else {
				for len(g.l[k]) > 0 {
					e := g.l[k][r.Intn(len(g.l[k]))]
					add("rm %s %d", L, e)
					g.l[k] = del(g.l[k], e)
				}
			}
			g.l[k] = nil
			add("len %s", L)
			if r.Chance(70) {
				add("init %s", L)
			}
			add("front %s", L)
			for _, e := range old {
				if r.Chance(60) {
					reinsert(k, e)
				} else {
					g.det = append(g.det, e)
				}
			}
			pb(k)
			if len(g.l[k]) > 0 {
				probe(k, g.l[k][r.Intn(len(g.l[k]))])
			}
		case 3: // copy onto itself, shrink, copy again
			for i, m := 0, r.Range(1, 3); i < m; i++ {
				if len(g.l[k]) > 40 {
					break
				}
				cnt := len(g.l[k])
				ids := make([]int, cnt)
				for j := range ids {
					ids[j] = g.next
					g.next++
				}
				if r.Bool() {
					add("pbl %s %s", L, L)
					g.l[k] = append(append([]int{}, g.l[k]...), ids...)
				} else {
					add("pfl %s %s", L, L)
					rev := make([]int, cnt)
					for j := range ids {
						rev[cnt-1-j] = ids[j]
					}
					g.l[k] = append(rev, g.l[k]...)
				}
				cut := r.Intn(len(g.l[k]) + 1)
				add("removebn %s %d", L, cut)
				g.l[k] = g.l[k][:len(g.l[k])-cut]
			}
		case 4: // Init twice with additions in between (only ever on an empty list)
			if len(g.l[k]) == 0 {
				add("init %s", L)
				pb(k)
				add("rm %s %d", L, g.l[k][0])
				g.det = append(g.det, g.l[k][0])
				g.l[k] = nil
				add("init %s", L)
				pb(k)
			} else {
				pb(k)
			}
		}
	}
	return core.Case{Lines: lines, Tag: "history"}
}

// ---------------------------------------------------------------- SList, long lists

func genSLarge(r *core.Rand, tier string) core.Case {
	lines := []string{"@ C13 slist " + []string{"z", "n"}[r.Intn(2)] + " big"}
	n := bigSize(r, tier)
	lines = append(lines, fmt.Sprintf("pushn %d", n))
	length, next := n, n
	nops := r.Range(4, 10)
	// index classes on a long list: 0, 1, n/2, n-2, n-1, n, n+1 (and -1)
	idx := func() int {
		return []int{0, 1, length / 2, length - 2, length - 1, length, length + 1, -1}[r.Intn(8)]
	}
	for i := 0; i < nops; i++ {
		switch r.Pick(4, 5, 4, 3, 2, 2, 2, 2) {
		case 0:
			lines = append(lines, fmt.Sprintf("get %d", idx()))
		case 1:
			j := idx()
			lines = append(lines, fmt.Sprintf("rm %d", j))
			if j >= 0 && j < length {
				length--
			}
		case 2:
			lines = append(lines, fmt.Sprintf("ins %d %d", idx(), r.Range(0, 9)))
			length++
			next++
		case 3:
			lines = append(lines, fmt.Sprintf("swap %d %d", idx(), idx()))
		case 4:
			if r.Bool() {
				lines = append(lines, fmt.Sprintf("pb %d", r.Range(0, 9)))
			} else {
				lines = append(lines, fmt.Sprintf("pf %d", r.Range(0, 9)))
			}
			length++
			next++
		case 5:
			lines = append(lines, "rmf")
			if length > 0 {
				length--
			}
		case 6: // a caller-made node through a *Node entry point
			lines = append(lines, fmt.Sprintf("new %d", r.Range(0, 9)))
			e := next
			next++
			switch r.Intn(3) {
			case 0:
				lines = append(lines, fmt.Sprintf("pfn %d", e))
			case 1:
				lines = append(lines, fmt.Sprintf("pbn %d", e))
			default:
				lines = append(lines, fmt.Sprintf("insn %d %d", idx(), e))
			}
			length++
		case 7:
			lines = append(lines, []string{"len", "front", "back"}[r.Intn(3)])
		}
	}
	// sometimes drain completely (from either end) and refill
	if r.Chance(30) {
		if r.Bool() {
			lines = append(lines, fmt.Sprintf("removen %d", length+r.Intn(2)))
		} else {
			lines = append(lines, fmt.Sprintf("removeln %d", length))
		}
		lines = append(lines, "back", fmt.Sprintf("pushn %d", r.Range(1, 300)), "rm 0", "back")
	}
	return core.Case{Lines: lines, Tag: "large"}
}

// ---------------------------------------------------------------- SList, histories

func genSHistory(r *core.Rand, tier string) core.Case {
	lines := []string{"@ C13 slist " + []string{"z", "n"}[r.Intn(2)]}
	add := func(f string, a ...any) { lines = append(lines, fmt.Sprintf(f, a...)) }
	var ids, det []int
	next := 0
	fill := func(m int) {
		for i := 0; i < m; i++ {
			switch r.Intn(5) {
			case 0:
				add("pf %d", r.Range(0, 9))
				ids = insAt(ids, 0, next)
				next++
			case 1:
				j := r.Range(-1, len(ids)+1)
				add("ins %d %d", j, r.Range(0, 9))
				c := j
				if c < 0 {
					c = 0
				}
				if c > len(ids) {
					c = len(ids)
				}
				ids = insAt(ids, c, next)
				next++
			case 2:
				if len(det) > 0 { // an old node comes back
					e := det[r.Intn(len(det))]
					det = del(det, e)
					switch r.Intn(3) {
					case 0:
						add("pfn %d", e)
						ids = insAt(ids, 0, e)
					case 1:
						add("pbn %d", e)
						ids = append(ids, e)
					default:
						j := r.Range(-1, len(ids)+1)
						add("insn %d %d", j, e)
						c := j
						if c < 0 {
							c = 0
						}
						if c > len(ids) {
							c = len(ids)
						}
						ids = insAt(ids, c, e)
					}
					break
				}
				fallthrough
			default:
				add("pb %d", r.Range(0, 9))
				ids = append(ids, next)
				next++
			}
		}
	}
	drain := func() {
		for len(ids) > 0 {
			switch r.Intn(4) {
			case 0:
				add("rmf")
				det = append(det, ids[0])
				ids = ids[1:]
			case 1: // the last element: tail must move to its predecessor
				j := len(ids) - 1
				add("rm %d", j)
				det = append(det, ids[j])
				ids = ids[:j]
			case 2:
				add("rm 0")
				det = append(det, ids[0])
				ids = ids[1:]
			default:
				j := r.Intn(len(ids))
				add("rm %d", j)
				det = append(det, ids[j])
				ids = del(ids, ids[j])
			}
			if r.Chance(25) {
				add("%s", []string{"back", "len", "front"}[r.Intn(3)])
			}
		}
		add("back")
		add("len")
		if r.Bool() {
			add("rmf")
			add("rm 0")
		}
	}
	var other []int // the second list (line `flip` exchanges the two)
	flip := func() {
		add("flip")
		ids, other = other, ids
	}
	// every node a removing call returns must be detached: put it, at once, through a *Node entry
	// point into this or into the other list, then traverse
	removeAndRelink := func() {
		if len(ids) == 0 {
			fill(2)
		}
		n := len(ids)
		j := []int{0, 0, n - 1, n / 2, r.Intn(n)}[r.Intn(5)]
		e := ids[j]
		if j == 0 && r.Bool() {
			add("rmf")
		} else {
			add("rm %d", j)
		}
		ids = del(ids, e)
		cross := r.Chance(50)
		if cross {
			flip()
		}
		m := len(ids)
		switch r.Intn(4) {
		case 0:
			add("pfn %d", e)
			ids = insAt(ids, 0, e)
		case 1:
			add("pbn %d", e)
			ids = append(ids, e)
		case 2: // clamped: i >= Len goes through PushBackNode
			add("insn %d %d", m+r.Intn(2), e)
			ids = append(ids, e)
		default:
			c := r.Range(0, m)
			add("insn %d %d", c, e)
			ids = insAt(ids, c, e)
		}
		add("next %d", e)
		if r.Bool() {
			add("walkbody")
		} else {
			add("len")
		}
		if cross {
			flip()
			add("back")
		}
	}
	fill(r.Range(1, 6))
	phases := r.Range(2, 5)
	for p := 0; p < phases && len(lines) < 170; p++ {
		switch r.Pick(4, 4, 2, 5, 3) {
		case 3:
			for i, m := 0, r.Range(1, 6); i < m; i++ {
				removeAndRelink()
			}
		case 4:
			if len(ids) < 2 {
				fill(3)
			}
			for i, m := 0, r.Range(1, 3); i < m; i++ {
				lines = append(lines, sLoopLine(r, &ids, &det, &next, &other))
			}
			add("back")
		case 0: // fill – drain – refill: head/tail/len after each phase
			drain()
			fill(r.Range(1, 7))
			add("back")
		case 1: // the same node removed and re-inserted many times
			if len(ids) == 0 {
				fill(2)
			}
			j := r.Intn(len(ids))
			e := ids[j]
			for i, m := 0, r.Range(2, 10); i < m; i++ {
				j = idxOf(ids, e)
				add("rm %d", j)
				ids = del(ids, e)
				add("next %d", e)
				switch r.Intn(3) {
				case 0:
					add("pfn %d", e)
					ids = insAt(ids, 0, e)
				case 1:
					add("pbn %d", e)
					ids = append(ids, e)
				default:
					c := r.Range(0, len(ids))
					add("insn %d %d", c, e)
					ids = insAt(ids, c, e)
				}
				if r.Chance(50) {
					add("next %d", e)
				}
				if r.Chance(30) {
					add("back")
				}
			}
		case 2: // swap chain
			if len(ids) < 2 {
				fill(3)
			}
			for i, m := 0, r.Range(3, 12); i < m; i++ {
				add("swap %d %d", r.Range(-1, len(ids)), r.Range(0, len(ids)))
			}
		}
	}
	return core.Case{Lines: lines, Tag: "history"}
}

// ---------------------------------------------------------------- loops with a mutating body

// dLoopLine: `allbody`/`walkbody` on list k. The body acts, at a few iterations, on handles chosen
// relative to the cursor (current node, successor, successor's successor, predecessor, any node,
// removed and foreign ones); the simulation follows the container/list loop (Next after the body).
func dLoopLine(r *core.Rand, g *dSim, k int) string {
	names := []string{"A", "B"}
	L := names[k]
	line := "allbody " + L
	if r.Chance(35) {
		line = "walkbody " + L
	}
	cur := -1
	if len(g.l[k]) > 0 {
		cur = g.l[k][0]
	}
	acts := r.Range(1, 3)
	start := g.next // handles made inside the loop cannot be named in the script
	for i := 0; cur >= 0 && i < 300; i++ {
		n := len(g.l[k])
		if acts > 0 && (r.Chance(45) || i == 0 && r.Chance(50)) {
			acts--
			ci := idxOf(g.l[k], cur)
			rel0 := func() int { // a handle near the cursor
				switch r.Pick(4, 6, 2, 2, 2, 1, 1) {
				case 0:
					return cur
				case 1:
					if ci+1 < n {
						return g.l[k][ci+1]
					}
				case 2:
					if ci+2 < n {
						return g.l[k][ci+2]
					}
				case 3:
					if ci > 0 {
						return g.l[k][ci-1]
					}
				case 4:
					return g.l[k][r.Intn(n)]
				case 5:
					if len(g.det) > 0 {
						return g.det[r.Intn(len(g.det))]
					}
				case 6:
					if m := len(g.l[1-k]); m > 0 {
						return g.l[1-k][r.Intn(m)]
					}
				}
				return cur
			}
			rel := func() int {
				for try := 0; try < 6; try++ {
					if e := rel0(); e < start {
						return e
					}
				}
				return 2 // the first node ever allocated (in the list, removed, or foreign)
			}
			if start <= 2 {
				break
			}
			tok := ""
			pick := r.Pick(6, 2, 3, 3, 3, 3, 2, 2, 1, 3)
			switch pick {
			case 9: // a call on the OTHER list while this one is being ranged over
				o := 1 - k
				M := names[o]
				e := 2
				if m := len(g.l[o]); m > 0 {
					e = g.l[o][r.Intn(m)]
				}
				if e >= start {
					e = 2
				}
				switch r.Intn(4) {
				case 0:
					tok = fmt.Sprintf("rm:%s:%d", M, e)
					if idxOf(g.l[o], e) >= 0 {
						g.l[o] = del(g.l[o], e)
						g.det = append(g.det, e)
					}
				case 1:
					tok = fmt.Sprintf("mtb:%s:%d", M, e)
					if idxOf(g.l[o], e) >= 0 {
						g.l[o] = append(del(g.l[o], e), e)
					}
				case 2:
					tok = fmt.Sprintf("pb:%s:%d", M, r.Range(0, 9))
					g.l[o] = append(g.l[o], g.next)
					g.next++
				default:
					tok = fmt.Sprintf("ib:%s:%d:%d", M, r.Range(0, 9), e)
					if j := idxOf(g.l[o], e); j >= 0 {
						g.l[o] = insAt(g.l[o], j, g.next)
						g.next++
					}
				}
			case 0:
				e := rel()
				tok = fmt.Sprintf("rm:%s:%d", L, e)
				if idxOf(g.l[k], e) >= 0 {
					g.l[k] = del(g.l[k], e)
					g.det = append(g.det, e)
				}
			case 1:
				e := rel()
				tok = fmt.Sprintf("mtf:%s:%d", L, e)
				if idxOf(g.l[k], e) >= 0 {
					g.l[k] = insAt(del(g.l[k], e), 0, e)
				}
			case 2:
				e := rel()
				tok = fmt.Sprintf("mtb:%s:%d", L, e)
				if idxOf(g.l[k], e) >= 0 {
					g.l[k] = append(del(g.l[k], e), e)
				}
			case 3, 4:
				e, m := rel(), rel()
				op, off := "mb", 0
				if r.Bool() {
					op, off = "ma", 1
				}
				tok = fmt.Sprintf("%s:%s:%d:%d", op, L, e, m)
				if e != m && idxOf(g.l[k], e) >= 0 && idxOf(g.l[k], m) >= 0 {
					s := del(g.l[k], e)
					g.l[k] = insAt(s, idxOf(s, m)+off, e)
				}
			case 5, 6:
				m := rel()
				op, off := "ia", 1
				if r.Chance(35) {
					op, off = "ib", 0
				}
				tok = fmt.Sprintf("%s:%s:%d:%d", op, L, r.Range(0, 9), m)
				if j := idxOf(g.l[k], m); j >= 0 {
					g.l[k] = insAt(g.l[k], j+off, g.next)
					g.next++
				}
			case 7:
				if r.Bool() {
					tok = fmt.Sprintf("pb:%s:%d", L, r.Range(0, 9))
					g.l[k] = append(g.l[k], g.next)
				} else {
					tok = fmt.Sprintf("pf:%s:%d", L, r.Range(0, 9))
					g.l[k] = insAt(g.l[k], 0, g.next)
				}
				g.next++
			case 8:
				tok = "break"
			}
			line += fmt.Sprintf(" %d:%s", i, tok)
			if tok == "break" {
				break
			}
		}
		// Next after the body: a removed node has no successor
		ci := idxOf(g.l[k], cur)
		if ci < 0 || ci+1 >= len(g.l[k]) {
			cur = -1
		} else {
			cur = g.l[k][ci+1]
		}
	}
	return line
}

// sLoopLine: the same for an SList (body acts by index, relative to the cursor's index).
func sLoopLine(r *core.Rand, ids, det *[]int, next *int, other *[]int) string {
	line := "allbody"
	if r.Chance(40) {
		line = "walkbody"
	}
	cur := -1
	if len(*ids) > 0 {
		cur = (*ids)[0]
	}
	clampTo := func(i, n int) int {
		if i < 0 {
			return 0
		}
		if i > n {
			return n
		}
		return i
	}
	acts := r.Range(1, 3)
	start := *next // handles made inside the loop cannot be named in the script
	for i := 0; cur >= 0 && i < 300; i++ {
		n := len(*ids)
		if acts > 0 && (r.Chance(45) || i == 0 && r.Chance(50)) {
			acts--
			ci := idxOf(*ids, cur)
			rel := func() int {
				return []int{ci, ci + 1, ci + 1, ci + 2, ci - 1, 0, n - 1, n, -1}[r.Intn(9)]
			}
			tok := ""
			pick := r.Pick(6, 2, 4, 2, 2, 2, 1, 4)
			if other == nil && pick == 7 {
				pick = 0
			}
			switch pick {
			case 7: // a call on the OTHER list of the family; also: move the current node over there
				m := len(*other)
				switch r.Intn(5) {
				case 0:
					tok = fmt.Sprintf("o.pb:%d", r.Range(0, 9))
					*other = append(*other, *next)
					*next++
				case 1:
					tok = "o.rmf"
					if m > 0 {
						*det = append(*det, (*other)[0])
						*other = (*other)[1:]
					}
				case 2:
					j := []int{0, m - 1, m, -1}[r.Intn(4)]
					tok = fmt.Sprintf("o.rm:%d", j)
					if j >= 0 && j < m {
						*det = append(*det, (*other)[j])
						*other = del(*other, (*other)[j])
					}
				case 3:
					tok = fmt.Sprintf("o.swap:%d:%d", r.Range(-1, m), r.Range(0, m))
				default: // unlink the current node here and link it into the other list
					if cur >= start || ci < 0 {
						tok = "o.len"
						break
					}
					line += fmt.Sprintf(" %d:rm:%d", i, ci)
					*ids = del(*ids, cur)
					if r.Bool() {
						tok = fmt.Sprintf("o.pbn:%d", cur)
						*other = append(*other, cur)
					} else {
						tok = fmt.Sprintf("o.pfn:%d", cur)
						*other = insAt(*other, 0, cur)
					}
				}
			case 0:
				j := rel()
				tok = fmt.Sprintf("rm:%d", j)
				if j >= 0 && j < n {
					*det = append(*det, (*ids)[j])
					*ids = del(*ids, (*ids)[j])
				}
			case 1:
				tok = "rmf"
				if n > 0 {
					*det = append(*det, (*ids)[0])
					*ids = (*ids)[1:]
				}
			case 2:
				j := rel()
				tok = fmt.Sprintf("ins:%d:%d", j, r.Range(0, 9))
				*ids = insAt(*ids, clampTo(j, n), *next)
				*next++
			case 3:
				if r.Bool() {
					tok = fmt.Sprintf("pb:%d", r.Range(0, 9))
					*ids = append(*ids, *next)
				} else {
					tok = fmt.Sprintf("pf:%d", r.Range(0, 9))
					*ids = insAt(*ids, 0, *next)
				}
				*next++
			case 4:
				tok = fmt.Sprintf("swap:%d:%d", rel(), rel())
			case 5: // a node removed earlier (possibly in this very loop) comes back
				if len(*det) == 0 {
					tok = "len"
					break
				}
				e := (*det)[len(*det)-1]
				if r.Chance(30) {
					e = (*det)[r.Intn(len(*det))]
				}
				if e >= start {
					tok = "back"
					break
				}
				*det = del(*det, e)
				switch r.Intn(3) {
				case 0:
					tok = fmt.Sprintf("pbn:%d", e)
					*ids = append(*ids, e)
				case 1:
					tok = fmt.Sprintf("pfn:%d", e)
					*ids = insAt(*ids, 0, e)
				default:
					j := []int{n, n + 1, ci + 1, 0}[r.Intn(4)]
					tok = fmt.Sprintf("insn:%d:%d", j, e)
					*ids = insAt(*ids, clampTo(j, n), e)
				}
			case 6:
				tok = "break"
			}
			line += fmt.Sprintf(" %d:%s", i, tok)
			if tok == "break" {
				break
			}
		}
		ci := idxOf(*ids, cur)
		switch {
		case ci >= 0 && ci+1 < len(*ids):
			cur = (*ids)[ci+1]
		case ci < 0 && other != nil && idxOf(*other, cur) >= 0 && idxOf(*other, cur)+1 < len(*other):
			cur = (*other)[idxOf(*other, cur)+1] // the loop goes on in the list the node was moved to
		default:
			cur = -1
		}
	}
	return line
}

// ---------------------------------------------------------------- outside the contract (Tag "misuse")

// Node forms given a node that is STILL LINKED (same or other list) and Init on a non-empty list:
// undocumented misuse, where the code relinks without unlinking (c13_misuse_breaks: no abstract
// state exists afterwards).  The independent oracle is silent from the misuse on; the case ties the
// real pointer writes to the Lean model line by line (dumps are capped walks, so cycles are safe).
func genDMisuse(r *core.Rand, tier string) core.Case {
	kinds := []string{"z", "n"}
	lines := []string{fmt.Sprintf("@ C13 dlist %s %s", kinds[r.Intn(2)], kinds[r.Intn(2)])}
	names := []string{"A", "B"}
	var l [2][]int
	next := 2
	add := func(f string, a ...any) { lines = append(lines, fmt.Sprintf(f, a...)) }
	for i, m := 0, r.Range(1, 5); i < m; i++ {
		add("pb A %d", r.Range(0, 9))
		l[0] = append(l[0], next)
		next++
	}
	for i, m := 0, r.Range(0, 3); i < m; i++ {
		add("pb B %d", r.Range(0, 9))
		l[1] = append(l[1], next)
		next++
	}
	any := func() int { return 2 + r.Intn(next-2) }
	end := func(k int) int { // a node of list k at an end or in the middle, else any node
		if n := len(l[k]); n > 0 {
			return l[k][posClass(r, n)]
		}
		return any()
	}
	misuse := func() {
		k := r.Intn(2)
		L := names[k]
		src := k // where the still-linked node comes from
		if r.Chance(50) {
			src = 1 - k
		}
		e := end(src)
		switch r.Pick(3, 3, 2, 2, 2) {
		case 0:
			add("pfn %s %d", L, e)
		case 1:
			add("pbn %s %d", L, e)
		case 2:
			add("inb %s %d %d", L, e, end(k))
		case 3:
			add("ina %s %d %d", L, e, end(k))
		case 4:
			add("init %s", L)
		}
	}
	misuse()
	for i, m := 0, r.Range(3, 9); i < m; i++ {
		k := r.Intn(2)
		L := names[k]
		switch r.Pick(3, 3, 2, 2, 3, 2, 2, 2, 2, 2) {
		case 0:
			add("next %d", any())
		case 1:
			add("prev %d", any())
		case 2:
			add("%s %s", []string{"len", "front", "back"}[r.Intn(3)], L)
		case 3:
			add("rm %s %d", L, any())
		case 4:
			add("%s %s %d", []string{"mtf", "mtb"}[r.Intn(2)], L, any())
		case 5:
			add("%s %s %d %d", []string{"mb", "ma"}[r.Intn(2)], L, any(), any())
		case 6:
			add("%s %s %d", []string{"pb", "pf"}[r.Intn(2)], L, r.Range(0, 9))
			next++
		case 7:
			add("setv %d %d", any(), r.Range(0, 9))
		case 8:
			misuse()
		case 9:
			add("%s %s %d %d", []string{"ib", "ia"}[r.Intn(2)], L, r.Range(0, 9), any())
			// a node is allocated only if the mark is accepted: do not name later ids
		}
	}
	return core.Case{Lines: lines, Tag: "misuse"}
}

func genSMisuse(r *core.Rand, tier string) core.Case {
	lines := []string{"@ C13 slist " + []string{"z", "n"}[r.Intn(2)]}
	add := func(f string, a ...any) { lines = append(lines, fmt.Sprintf(f, a...)) }
	n := 0
	for i, m := 0, r.Range(1, 5); i < m; i++ {
		add("pb %d", r.Range(0, 9))
		n++
	}
	if r.Chance(50) {
		add("flip")
		for i, m := 0, r.Range(1, 3); i < m; i++ {
			add("pb %d", r.Range(0, 9))
			n++
		}
		if r.Bool() {
			add("flip")
		}
	}
	any := func() int { return r.Intn(n) }
	idx := func() int { return r.Range(-1, 5) }
	misuse := func() {
		switch r.Intn(3) {
		case 0:
			add("pfn %d", any())
		case 1:
			add("pbn %d", any())
		default:
			add("insn %d %d", idx(), any())
		}
	}
	misuse()
	// no value-allocating call from here on: the harness finds such nodes by walking from Front
	for i, m := 0, r.Range(3, 9); i < m; i++ {
		switch r.Pick(3, 2, 2, 2, 2, 2, 2, 1, 1) {
		case 0:
			add("next %d", any())
		case 1:
			add("%s", []string{"len", "front", "back"}[r.Intn(3)])
		case 2:
			add("get %d", idx())
		case 3:
			add("rm %d", idx())
		case 4:
			add("rmf")
		case 5:
			add("swap %d %d", idx(), idx())
		case 6:
			add("flip")
		case 7:
			add("setv %d %d", any(), r.Range(0, 9))
		case 8:
			misuse()
		}
	}
	return core.Case{Lines: lines, Tag: "misuse"}
}

// ---------------------------------------------------------------- three DLists interleaved (Tag "three")

// genD3: operations alternate between three lists sharing the node handles; handles of the two
// other lists are passed as foreign nodes, removed nodes travel between all three lists through
// the *Node forms, lists are copied onto each other and onto themselves.
func genD3(r *core.Rand, tier string) core.Case {
	kinds := []string{"z", "n"}
	lines := []string{fmt.Sprintf("@ C13 dlist %s %s %s", kinds[r.Intn(2)], kinds[r.Intn(2)], kinds[r.Intn(2)])}
	names := []string{"A", "B", "C"}
	var l [3][]int
	var det []int
	next := 3
	add := func(f string, a ...any) { lines = append(lines, fmt.Sprintf(f, a...)) }
	pick := func(k int) int { // live in k (ends favoured) 55 %, foreign 30 %, removed 15 %
		for try := 0; try < 4; try++ {
			switch r.Pick(55, 30, 15) {
			case 0:
				if n := len(l[k]); n > 0 {
					return l[k][posClass(r, n)]
				}
			case 1:
				o := (k + 1 + r.Intn(2)) % 3
				if n := len(l[o]); n > 0 {
					return l[o][r.Intn(n)]
				}
			case 2:
				if n := len(det); n > 0 {
					return det[r.Intn(n)]
				}
			}
		}
		if next > 3 {
			return 3 + r.Intn(next-3)
		}
		return -1
	}
	n := r.Range(8, 45)
	for len(lines) <= n {
		k := r.Intn(3)
		L := names[k]
		v := r.Range(0, 9)
		switch r.Pick(12, 6, 8, 6, 6, 6, 6, 4, 3, 3, 2, 2) {
		case 0:
			add("pb %s %d", L, v)
			l[k] = append(l[k], next)
			next++
		case 1:
			add("pf %s %d", L, v)
			l[k] = insAt(l[k], 0, next)
			next++
		case 2:
			e := pick(k)
			if e < 0 {
				continue
			}
			add("rm %s %d", L, e)
			if idxOf(l[k], e) >= 0 {
				l[k] = del(l[k], e)
				det = append(det, e)
			}
		case 3:
			e := pick(k)
			if e < 0 {
				continue
			}
			if r.Bool() {
				add("mtf %s %d", L, e)
				if idxOf(l[k], e) >= 0 {
					l[k] = insAt(del(l[k], e), 0, e)
				}
			} else {
				add("mtb %s %d", L, e)
				if idxOf(l[k], e) >= 0 {
					l[k] = append(del(l[k], e), e)
				}
			}
		case 4:
			e, m := pick(k), pick(k)
			if e < 0 || m < 0 {
				continue
			}
			op, off := "mb", 0
			if r.Bool() {
				op, off = "ma", 1
			}
			add("%s %s %d %d", op, L, e, m)
			if e != m && idxOf(l[k], e) >= 0 && idxOf(l[k], m) >= 0 {
				s := del(l[k], e)
				l[k] = insAt(s, idxOf(s, m)+off, e)
			}
		case 5:
			m := pick(k)
			if m < 0 {
				continue
			}
			op, off := "ib", 0
			if r.Bool() {
				op, off = "ia", 1
			}
			add("%s %s %d %d", op, L, v, m)
			if j := idxOf(l[k], m); j >= 0 {
				l[k] = insAt(l[k], j+off, next)
				next++
			}
		case 6: // a removed node enters another (or the same) list through a *Node form
			if len(det) == 0 {
				continue
			}
			e := det[r.Intn(len(det))]
			switch r.Intn(3) {
			case 0:
				det = del(det, e)
				add("pfn %s %d", L, e)
				l[k] = insAt(l[k], 0, e)
			case 1:
				det = del(det, e)
				add("pbn %s %d", L, e)
				l[k] = append(l[k], e)
			default:
				m := pick(k)
				if m < 0 || m == e {
					continue
				}
				op, off := "inb", 0
				if r.Bool() {
					op, off = "ina", 1
				}
				add("%s %s %d %d", op, L, e, m)
				if j := idxOf(l[k], m); j >= 0 {
					det = del(det, e)
					l[k] = insAt(l[k], j+off, e)
				}
			}
		case 7: // copy any of the three onto this one
			o := r.Intn(3)
			if len(l[k])+len(l[o]) > 50 {
				continue
			}
			cnt := len(l[o])
			ids := make([]int, cnt)
			for j := range ids {
				ids[j] = next
				next++
			}
			if r.Bool() {
				add("pbl %s %s", L, names[o])
				l[k] = append(append([]int{}, l[k]...), ids...)
			} else {
				add("pfl %s %s", L, names[o])
				rev := make([]int, cnt)
				for j := range ids {
					rev[cnt-1-j] = ids[j]
				}
				l[k] = append(rev, l[k]...)
			}
		case 8:
			e := pick(k)
			if e < 0 {
				continue
			}
			add("%s %d", []string{"next", "prev"}[r.Intn(2)], e)
		case 9:
			add("%s %s", []string{"len", "front", "back"}[r.Intn(3)], L)
		case 10:
			e := pick(k)
			if e < 0 {
				continue
			}
			add("setv %d %d", e, v)
		case 11:
			add("new %d", v)
			det = append(det, next)
			next++
		}
	}
	return core.Case{Lines: lines, Tag: "three"}
}
