package c13

import (
	"iter"
	"math"
	"strconv"
	"strings"

	"verifharness/internal/core"
)

// Element types: DList[T] and SList[T] are declared over `T any`; the protocol carries small
// integer codes, the typed values live on the Go side only (the Lean model's element type is
// abstract: values are carried, never inspected or compared).

type codec[T any] struct {
	enc func(int) T
	dec func(T) int
}

type fstruct struct { // a struct whose == is not reflexive (NaN field)
	f float64
	n int
}

type ustruct struct { // an uncomparable struct (slice field)
	s []int
}

var (
	intCodec = codec[int]{func(v int) int { return v }, func(x int) int { return x }}
	strCodec = codec[string]{func(v int) string { return "s" + strconv.Itoa(v) }, func(x string) int {
		n, _ := strconv.Atoi(strings.TrimPrefix(x, "s"))
		return n
	}}
	// 7 = NaN, 8 = -0, 0 = +0
	floatCodec = codec[float64]{encFloat, decFloat}
	// uncomparable element type
	sliceCodec = codec[[]int]{func(v int) []int {
		if v == 0 {
			return nil
		}
		return []int{v}
	}, func(x []int) int {
		if len(x) == 0 {
			return 0
		}
		return x[0]
	}}
	// `any` holding comparable and uncomparable dynamic types, chosen by the code
	anyCodec = codec[any]{func(v int) any {
		switch ((v % 6) + 6) % 6 {
		case 0:
			return v
		case 1:
			return "s" + strconv.Itoa(v)
		case 2:
			return []byte{byte(v), byte(v >> 8)}
		case 3:
			if v == 9 {
				return math.NaN()
			}
			return float64(v)
		case 4:
			return ustruct{[]int{v}}
		}
		return nil
	}, func(x any) int {
		switch y := x.(type) {
		case int:
			return y
		case string:
			n, _ := strconv.Atoi(strings.TrimPrefix(y, "s"))
			return n
		case []byte:
			return int(y[0]) | int(y[1])<<8
		case float64:
			if math.IsNaN(y) {
				return 9
			}
			return int(y)
		case ustruct:
			return y.s[0]
		}
		return 5 // nil: the only code with v % 6 == 5 the generator uses
	}}
	// zero-size element type: every value is the same; the streams use value 0 only
	unitCodec    = codec[struct{}]{func(int) struct{} { return struct{}{} }, func(struct{}) int { return 0 }}
	fstructCodec = codec[fstruct]{func(v int) fstruct { return fstruct{encFloat(v), v} }, func(x fstruct) int { return x.n }}
)

func encFloat(v int) float64 {
	switch v {
	case 7:
		return math.NaN()
	case 8:
		return math.Copysign(0, -1)
	}
	return float64(v)
}

func decFloat(x float64) int {
	switch {
	case math.IsNaN(x):
		return 7
	case x == 0 && math.Signbit(x):
		return 8
	}
	return int(x)
}

func mapSeq[T any](seq iter.Seq[T], f func(T) int) func(func(int) bool) {
	return func(yield func(int) bool) {
		for x := range seq {
			if !yield(f(x)) {
				return
			}
		}
	}
}

// tyOf: the element type named in the header (`ty=…`), "int" if none.
func tyOf(c core.Case) string {
	for _, t := range core.Toks(c.Lines[0]) {
		if strings.HasPrefix(t, "ty=") {
			return t[3:]
		}
	}
	return "int"
}

func dropTy(h []string) []string {
	var r []string
	for _, t := range h {
		if !strings.HasPrefix(t, "ty=") {
			r = append(r, t)
		}
	}
	return r
}

var elemTypes = []string{"int", "string", "float", "slice", "any", "unit", "fstruct"}

// retype: run the generated case on another element type. For `unit` every value is rewritten to 0
// (all values of struct{} are equal); for `any` value 5 (nil) stays, other values keep their class.
func retype(r *core.Rand, c core.Case) core.Case {
	if c.Tag == "large" || c.Tag == "misuse" || !r.Chance(35) {
		return c
	}
	ty := elemTypes[1+r.Intn(len(elemTypes)-1)]
	c.Lines[0] += " ty=" + ty
	if ty != "unit" {
		return c
	}
	vpos := map[string]int{"pf": -1, "pb": -1, "new": -1, "ib": 2, "ia": 2, "ins": -1, "setv": -1}
	fix := func(t []string) {
		name := strings.TrimPrefix(t[0], "o.")
		if p, ok := vpos[name]; ok && len(t) > 1 {
			if p < 0 {
				p = len(t) - 1
			}
			if p < len(t) {
				t[p] = "0"
			}
		}
	}
	for i := 1; i < len(c.Lines); i++ {
		t := core.Toks(c.Lines[i])
		if len(t) == 0 {
			continue
		}
		if t[0] == "allbody" || t[0] == "walkbody" {
			for j := 1; j < len(t); j++ {
				f := strings.Split(t[j], ":")
				if len(f) >= 3 {
					fix(f[1:])
					t[j] = strings.Join(f, ":")
				}
			}
		} else if t[0] != "pushn" {
			fix(t)
		}
		c.Lines[i] = strings.Join(t, " ")
	}
	return c
}
