package c13

import (
	"fmt"
	"math"
	"strconv"
	"strings"

	"github.com/welllog/golib/listz"

	"verifharness/internal/core"
)

// ---------------------------------------------------------------- implementation side

type sImpl[T any] struct {
	c   codec[T]
	big bool
	l   *listz.SList[T]
	l2  *listz.SList[T] // second list sharing the nodes; `flip` exchanges l and l2
	h   []*listz.SNode[T]
	ids map[*listz.SNode[T]]int
}

func (d *sImpl[T]) reg(e *listz.SNode[T]) {
	if e == nil {
		return
	}
	if _, ok := d.ids[e]; ok {
		return
	}
	d.ids[e] = len(d.h)
	d.h = append(d.h, e)
}

func (d *sImpl[T]) show(e *listz.SNode[T]) string {
	if e == nil {
		return "nil"
	}
	if id, ok := d.ids[e]; ok {
		return strconv.Itoa(id)
	}
	return "?"
}

// discover registers nodes allocated inside the list (PushFront/PushBack/InsertAt do not
// return them): at most one per operation, found by walking Front/Next.
func (d *sImpl[T]) discover() {
	n, cap := 0, walkCap
	if d.big {
		cap = bigCap
	}
	for e := d.l.Front(); e != nil && n < cap; e = e.Next() {
		d.reg(e)
		n++
	}
}

func (d *sImpl[T]) dumpBig() string {
	var ids, vs, v2 digest
	for e := d.l.Front(); e != nil; e = e.Next() {
		if ids.n == bigCap {
			ids.cut, vs.cut = true, true
			break
		}
		id, ok := d.ids[e]
		if !ok {
			id = -5
		}
		ids.add(id)
		vs.add(d.c.dec(e.Value))
	}
	for x := range d.l.All() {
		if v2.n == bigCap {
			v2.cut = true
			break
		}
		v2.add(d.c.dec(x))
	}
	v := vs.String()
	if v2.String() != v {
		v += "all!"
	}
	n := ids.n
	for _, k := range []int{1, 2, n / 2, n - 2, n - 1} {
		if k <= 0 || k >= n {
			continue
		}
		cnt, e := 0, d.l.Front()
		ok := true
		for x := range d.l.All() {
			if e == nil || d.c.dec(x) != d.c.dec(e.Value) {
				ok = false
				break
			}
			e = e.Next()
			cnt++
			if cnt == k {
				break
			}
		}
		if !ok || cnt != k {
			v += "all-break!"
			break
		}
	}
	return fmt.Sprintf("%d h=%s t=%s n~%s v~%s", d.l.Len(), d.show(d.l.Front()), d.show(d.l.Back()), ids.String(), v)
}

func (d *sImpl[T]) dump() string {
	if d.big {
		return d.dumpBig()
	}
	var ids, vs []string
	n := 0
	for e := d.l.Front(); e != nil; e = e.Next() {
		if n == walkCap {
			ids = append(ids, "!")
			break
		}
		ids = append(ids, d.show(e))
		n++
	}
	n = 0
	for x := range d.l.All() {
		if n == walkCap {
			vs = append(vs, "!")
			break
		}
		vs = append(vs, strconv.Itoa(d.c.dec(x)))
		n++
	}
	if !breakOK(mapSeq(d.l.All(), d.c.dec), vs) {
		vs = append(vs, "all-break!")
	}
	return fmt.Sprintf("%d h=%s t=%s n[%s] v[%s]", d.l.Len(), d.show(d.l.Front()), d.show(d.l.Back()), strings.Join(ids, " "), strings.Join(vs, " "))
}

// implS runs the case on SList[T] for the element type named by the header token `ty=…`.
func implS(c core.Case) []string {
	switch tyOf(c) {
	case "string":
		return implST(c, strCodec)
	case "float":
		return implST(c, floatCodec)
	case "slice":
		return implST(c, sliceCodec)
	case "any":
		return implST(c, anyCodec)
	case "unit":
		return implST(c, unitCodec)
	case "fstruct":
		return implST(c, fstructCodec)
	}
	return implST(c, intCodec)
}

func implST[T any](c core.Case, cd codec[T]) []string {
	d := &sImpl[T]{c: cd, ids: map[*listz.SNode[T]]int{}}
	return core.RunOps(c,
		func(hdr []string) string {
			h := dropTy(hdr)[1:]
			if len(h) > 0 && h[len(h)-1] == "big" {
				d.big = true
				h = h[:len(h)-1]
			}
			switch {
			case len(h) == 0, len(h) == 1 && h[0] == "n":
				d.l = listz.NewSingly[T]()
			case len(h) == 1 && h[0] == "z":
				d.l = new(listz.SList[T]) // the zero value
			default:
				return "bad-op"
			}
			return "ok | " + d.dump()
		},
		func(t []string) string {
			r := d.step(t)
			if r == "bad-op" {
				return r
			}
			d.discover()
			return r + " | " + d.dump()
		})
}

var sArity = map[string]int{"new": 1, "get": 1, "rm": 1, "rmf": 0, "pf": 1, "pb": 1, "ins": 2, "pfn": 1, "pbn": 1, "insn": 2, "swap": 2, "len": 0, "front": 0, "back": 0, "next": 1, "setv": 2}

// wellFormed: a plain protocol line whose node handle (if any) exists now.
func (d *sImpl[T]) wellFormed(t []string) bool {
	if len(t) > 0 && strings.HasPrefix(t[0], "o.") {
		t = append([]string{t[0][2:]}, t[1:]...)
	}
	n, ok := sArity[firstOr(t)]
	if !ok || len(t) != 1+n {
		return false
	}
	for i := 0; i < n; i++ {
		x, err := strconv.Atoi(t[1+i])
		if err != nil || strings.HasPrefix(t[1+i], "+") {
			return false
		}
		isHandle := (t[0] == "pfn" || t[0] == "pbn" || t[0] == "next" || t[0] == "setv") && i == 0 || t[0] == "insn" && i == 1
		if isHandle && (x < 0 || x >= len(d.h)) {
			return false
		}
	}
	return true
}

func (d *sImpl[T]) step(t []string) string {
	if len(t) == 0 {
		return "bad-op"
	}
	if len(t) == 1 && t[0] == "flip" {
		if d.l2 == nil {
			d.l2 = new(listz.SList[T])
		}
		d.l, d.l2 = d.l2, d.l
		return "ok"
	}
	if t[0] == "pushn" || t[0] == "removen" || t[0] == "removeln" {
		if len(t) != 2 {
			return "bad-op"
		}
		k, err := strconv.Atoi(t[1])
		if err != nil || k < 0 || strings.HasPrefix(t[1], "+") || strings.HasPrefix(t[1], "-") {
			return "bad-op"
		}
		for i := 0; i < k; i++ {
			switch t[0] {
			case "pushn":
				d.l.PushBack(d.c.enc(i % 10))
			case "removen":
				d.l.RemoveFront()
			default:
				d.l.Remove(d.l.Len() - 1)
			}
		}
		return "ok"
	}
	if t[0] == "allbody" || t[0] == "walkbody" {
		acts, brk, ok := parseScript(t[1:])
		if !ok {
			return "bad-op"
		}
		for _, as := range acts {
			for _, a := range as {
				if !d.wellFormed(a) {
					return "bad-op"
				}
			}
		}
		var ys []string
		n := 0
		body := func() bool {
			for _, a := range acts[n] {
				if strings.HasPrefix(a[0], "o.") { // a call on the other list of the family
					d.step([]string{"flip"})
					d.step(append([]string{a[0][2:]}, a[1:]...))
					d.discover()
					d.step([]string{"flip"})
					continue
				}
				d.step(a)
				d.discover() // at most one node is allocated per call
			}
			if brk[n] {
				return false
			}
			n++
			return true
		}
		if t[0] == "allbody" {
			for v := range d.l.All() {
				if n == bigCap {
					ys = append(ys, "!")
					break
				}
				ys = append(ys, strconv.Itoa(d.c.dec(v)))
				if !body() {
					break
				}
			}
		} else {
			for e := d.l.Front(); e != nil; e = e.Next() {
				if n == bigCap {
					ys = append(ys, "!")
					break
				}
				d.reg(e)
				ys = append(ys, d.show(e))
				if !body() {
					break
				}
			}
		}
		return "y[" + strings.Join(ys, " ") + "]"
	}
	n, ok := sArity[t[0]]
	if !ok || len(t) != 1+n {
		return "bad-op"
	}
	a := make([]int, n)
	for i := range a {
		x, err := strconv.Atoi(t[1+i])
		if err != nil || strings.HasPrefix(t[1+i], "+") {
			return "bad-op"
		}
		a[i] = x
	}
	node := func(h int) *listz.SNode[T] {
		if h < 0 || h >= len(d.h) {
			return nil
		}
		return d.h[h]
	}
	switch t[0] {
	case "new":
		e := &listz.SNode[T]{Value: d.c.enc(a[0])}
		d.reg(e)
		return d.show(e)
	case "get":
		return d.show(d.l.Get(a[0]))
	case "rm":
		return d.show(d.l.Remove(a[0]))
	case "rmf":
		return d.show(d.l.RemoveFront())
	case "pf":
		d.l.PushFront(d.c.enc(a[0]))
	case "pb":
		d.l.PushBack(d.c.enc(a[0]))
	case "ins":
		d.l.InsertAt(a[0], d.c.enc(a[1]))
	case "pfn":
		e := node(a[0])
		if e == nil {
			return "bad-op"
		}
		d.l.PushFrontNode(e)
	case "pbn":
		e := node(a[0])
		if e == nil {
			return "bad-op"
		}
		d.l.PushBackNode(e)
	case "insn":
		e := node(a[1])
		if e == nil {
			return "bad-op"
		}
		d.l.InsertNodeAt(a[0], e)
	case "swap":
		d.l.Swap(a[0], a[1])
	case "setv":
		e := node(a[0])
		if e == nil {
			return "bad-op"
		}
		e.Value = d.c.enc(a[1]) // the caller owns Value; the list must not depend on it
	case "len":
		return strconv.Itoa(d.l.Len())
	case "front":
		return d.show(d.l.Front())
	case "back":
		return d.show(d.l.Back())
	case "next":
		e := node(a[0])
		if e == nil {
			return "bad-op"
		}
		return d.show(e.Next())
	}
	return "ok"
}

// ---------------------------------------------------------------- independent oracle: a slice of (id, value)

type sCell struct{ id, v int }

func checkS(c core.Case, out []string) *core.Failure {
	var s, parked []sCell // the list in focus and the second list (line `flip`)
	vals := map[int]int{} // value of every allocated node
	next := 0
	show := func(p int) string {
		if p < 0 {
			return "nil"
		}
		return strconv.Itoa(p)
	}
	hdr := dropTy(core.Toks(c.Lines[0]))
	big := len(hdr) > 3 && hdr[len(hdr)-1] == "big"
	dump := func() string {
		if big {
			var ids, vs digest
			for k, x := range s {
				if k == bigCap {
					ids.cut, vs.cut = true, true
					break
				}
				ids.add(x.id)
				vs.add(x.v)
			}
			h, t := -1, -1
			if len(s) > 0 {
				h, t = s[0].id, s[len(s)-1].id
			}
			return fmt.Sprintf("%d h=%s t=%s n~%s v~%s", len(s), show(h), show(t), ids.String(), vs.String())
		}
		var ids, vs []string
		for _, x := range s {
			ids = append(ids, strconv.Itoa(x.id))
			vs = append(vs, strconv.Itoa(x.v))
		}
		h, t := -1, -1
		if len(s) > 0 {
			h, t = s[0].id, s[len(s)-1].id
		}
		return fmt.Sprintf("%d h=%s t=%s n[%s] v[%s]", len(s), show(h), show(t), strings.Join(ids, " "), strings.Join(vs, " "))
	}
	live := func(id int) bool {
		for _, x := range s {
			if x.id == id {
				return true
			}
		}
		for _, x := range parked {
			if x.id == id {
				return true
			}
		}
		return false
	}
	insert := func(i int, cell sCell) {
		if i <= 0 {
			i = 0
		}
		if i >= len(s) {
			i = len(s)
		}
		r := append([]sCell{}, s[:i]...)
		r = append(r, cell)
		s = append(r, s[i:]...)
	}
	if want := "ok | " + dump(); out[0] != want {
		return &core.Failure{Key: "slist-zero-value", Desc: fmt.Sprintf("fresh list: implementation %q, want %q", out[0], want)}
	}
	// exec runs one plain protocol line on the sequence; ok = false: malformed or unspecified
	exec := func(t []string) (string, bool) {
		a := make([]int, len(t)-1)
		for k := range a {
			x, err := strconv.Atoi(t[1+k])
			if err != nil {
				return "", false
			}
			a[k] = x
		}
		arity := map[string]int{"new": 1, "get": 1, "rm": 1, "rmf": 0, "pf": 1, "pb": 1, "ins": 2, "pfn": 1, "pbn": 1, "insn": 2, "swap": 2, "len": 0, "front": 0, "back": 0, "next": 1}
		if n, ok := arity[t[0]]; !ok || n != len(a) {
			return "", false
		}
		res := "ok"
		in := func(k int) bool { return k >= 0 && k < len(s) }
		switch t[0] {
		case "new":
			vals[next] = a[0]
			res = strconv.Itoa(next)
			next++
		case "get":
			if in(a[0]) {
				res = show(s[a[0]].id)
			} else {
				res = "nil"
			}
		case "rm":
			if in(a[0]) {
				res = show(s[a[0]].id)
				vals[s[a[0]].id] = s[a[0]].v
				s = append(append([]sCell{}, s[:a[0]]...), s[a[0]+1:]...)
			} else {
				res = "nil"
			}
		case "rmf":
			if len(s) > 0 {
				res = show(s[0].id)
				vals[s[0].id] = s[0].v
				s = s[1:]
			} else {
				res = "nil"
			}
		case "pf":
			insert(0, sCell{next, a[0]})
			next++
		case "pb":
			insert(len(s), sCell{next, a[0]})
			next++
		case "ins":
			insert(a[0], sCell{next, a[1]})
			next++
		case "pfn", "pbn", "insn":
			e := a[len(a)-1]
			if e < 0 || e >= next {
				return "", false
			}
			if live(e) {
				return "", false // undocumented misuse: node still linked
			}
			switch t[0] {
			case "pfn":
				insert(0, sCell{e, vals[e]})
			case "pbn":
				insert(len(s), sCell{e, vals[e]})
			default:
				insert(a[0], sCell{e, vals[e]})
			}
		case "swap":
			if in(a[0]) && in(a[1]) && a[0] != a[1] {
				s[a[0]].v, s[a[1]].v = s[a[1]].v, s[a[0]].v
			}
		case "setv":
			if a[0] < 0 || a[0] >= next {
				return "", false
			}
			vals[a[0]] = a[1]
			for _, q := range [][]sCell{s, parked} {
				for k := range q {
					if q[k].id == a[0] {
						q[k].v = a[1]
					}
				}
			}
		case "len":
			res = strconv.Itoa(len(s))
		case "front":
			res = "nil"
			if len(s) > 0 {
				res = show(s[0].id)
			}
		case "back":
			res = "nil"
			if len(s) > 0 {
				res = show(s[len(s)-1].id)
			}
		case "next":
			if a[0] < 0 || a[0] >= next {
				return "", false
			}
			res = "nil"
			for _, q := range [][]sCell{s, parked} {
				for k := range q {
					if q[k].id == a[0] && k+1 < len(q) {
						res = show(q[k+1].id)
					}
				}
			}
		}
		return res, true
	}
	for i := 1; i < len(c.Lines); i++ {
		t := core.Toks(c.Lines[i])
		if len(t) == 0 {
			return nil
		}
		if len(t) == 1 && t[0] == "flip" {
			s, parked = parked, s
			if want := "ok | " + dump(); out[i] != want {
				return &core.Failure{Key: "slist-flip", Desc: fmt.Sprintf("op %d %q: implementation answered %q, sequence semantics give %q (second list sharing the nodes)", i, c.Lines[i], clip(out[i]), clip(want))}
			}
			continue
		}
		if t[0] == "pushn" || t[0] == "removen" || t[0] == "removeln" {
			a := make([]int, len(t)-1)
			for k := range a {
				x, err := strconv.Atoi(t[1+k])
				if err != nil {
					return nil
				}
				a[k] = x
			}
			if len(a) != 1 || a[0] < 0 {
				return nil
			}
			for n := 0; n < a[0]; n++ {
				switch t[0] {
				case "pushn":
					s = append(s, sCell{next, n % 10})
					next++
				case "removen":
					if len(s) > 0 {
						vals[s[0].id] = s[0].v
						s = s[1:]
					}
				default:
					if len(s) > 0 {
						vals[s[len(s)-1].id] = s[len(s)-1].v
						s = s[:len(s)-1]
					}
				}
			}
			if want := "ok | " + dump(); out[i] != want {
				return &core.Failure{Key: "slist-" + t[0], Desc: fmt.Sprintf("op %d %q: implementation answered %q, sequence semantics give %q", i, c.Lines[i], clip(out[i]), clip(want))}
			}
			continue
		}
		if t[0] == "allbody" || t[0] == "walkbody" {
			acts, brk, ok := parseScript(t[1:])
			if !ok {
				return nil
			}
			for _, as := range acts { // handles must exist when the loop starts
				for _, a := range as {
					if len(a) > 0 && strings.HasPrefix(a[0], "o.") {
						a = append([]string{a[0][2:]}, a[1:]...)
					}
					n, ok := sArity[firstOr(a)]
					if !ok || len(a) != 1+n {
						return nil
					}
					hi := map[string]int{"pfn": 1, "pbn": 1, "next": 1, "insn": 2, "setv": 1}[a[0]]
					if hi > 0 {
						if x, err := strconv.Atoi(a[hi]); err != nil || x < 0 || x >= next {
							return nil
						}
					}
				}
			}
			// for e := l.Front(); e != nil; e = e.Next(): Next after the body; a node that the body
			// removed has a nil link, so the loop ends there
			var ys []string
			n := 0
			cur := -1
			if len(s) > 0 {
				cur = s[0].id
			}
			for cur >= 0 {
				if n == bigCap {
					ys = append(ys, "!")
					break
				}
				for _, x := range append(append([]sCell{}, s...), parked...) {
					if x.id == cur {
						if t[0] == "allbody" {
							ys = append(ys, strconv.Itoa(x.v))
						} else {
							ys = append(ys, strconv.Itoa(cur))
						}
					}
				}
				for _, a := range acts[n] {
					if len(a) == 0 {
						return nil
					}
					if strings.HasPrefix(a[0], "o.") { // on the other list
						s, parked = parked, s
						_, ok := exec(append([]string{a[0][2:]}, a[1:]...))
						s, parked = parked, s
						if !ok {
							return nil
						}
						continue
					}
					if _, ok := exec(a); !ok {
						return nil
					}
				}
				if brk[n] {
					break
				}
				n++
				nx := -1
				for _, q := range [][]sCell{s, parked} { // the node may be in the other list by now
					for k := range q {
						if q[k].id == cur && k+1 < len(q) {
							nx = q[k+1].id
						}
					}
				}
				cur = nx
			}
			want := "y[" + strings.Join(ys, " ") + "] | " + dump()
			if out[i] != want {
				return &core.Failure{Key: "slist-" + t[0], Desc: fmt.Sprintf("op %d %q: implementation answered %q, the loop `for e := l.Front(); e != nil; e = e.Next()` over the sequence gives %q", i, c.Lines[i], clip(out[i]), clip(want))}
			}
			continue
		}
		res, ok := exec(t)
		if !ok {
			return nil
		}
		want := res + " | " + dump()
		if out[i] != want {
			return &core.Failure{Key: "slist-" + t[0], Desc: fmt.Sprintf("op %d %q: implementation answered %q, sequence semantics give %q", i, c.Lines[i], clip(out[i]), clip(want))}
		}
	}
	return nil
}

// ---------------------------------------------------------------- generator

func genS(r *core.Rand, tier string) core.Case {
	lines := []string{"@ C13 slist"}
	n := r.Range(1, 40)
	if r.Chance(25) {
		n = r.Range(1, 8)
	}
	length, next := 0, 0
	var det []int // detached ids (the generator tracks them by replaying the sequence semantics)
	var ids []int
	// huge indices: every multiple of 2^31 / 2^32 / 2^33 plus or minus a small offset, and both ends
	// of the int range; an index test done in a narrower or unsigned type accepts some of these
	huge := func() int {
		j := r.Range(0, length+1)
		if r.Chance(50) {
			j = r.Range(0, 2)
		}
		switch r.Intn(10) {
		case 0:
			return 1<<31 + j
		case 1:
			return 1<<31 - 1 - j
		case 2:
			return -(1 << 31) + j
		case 3:
			return -(1 << 31) - 1 - j
		case 4:
			return 1<<32 + j
		case 5:
			return -(1 << 32) + j
		case 6:
			return 1<<32 - 1 - j
		case 7:
			if r.Bool() {
				return 1<<33 + j
			}
			return -(1 << 33) + j
		case 8:
			return math.MaxInt - j
		}
		return math.MinInt + j
	}
	idx := func() int { // all indices -1 .. len+1, ends favoured; one in eight is huge
		switch r.Pick(2, 2, 2, 1, 1, 6, 2) {
		case 6:
			return huge()
		case 0:
			return 0
		case 1:
			return length - 1
		case 2:
			return length
		case 3:
			return -1
		case 4:
			return length + 1
		}
		return r.Range(-1, length+1)
	}
	clamp := func(i int) int {
		if i < 0 {
			return 0
		}
		if i > length {
			return length
		}
		return i
	}
	for len(lines) <= n {
		v := r.Range(0, 9)
		switch r.Pick(8, 10, 10, 6, 12, 5, 8, 3, 2, 2, 3, 3, 3, 3) {
		case 0:
			lines = append(lines, fmt.Sprintf("pf %d", v))
			ids = insAt(ids, 0, next)
			next++
			length++
		case 1:
			lines = append(lines, fmt.Sprintf("pb %d", v))
			ids = append(ids, next)
			next++
			length++
		case 2:
			i := idx()
			lines = append(lines, fmt.Sprintf("ins %d %d", i, v))
			ids = insAt(ids, clamp(i), next)
			next++
			length++
		case 3:
			lines = append(lines, fmt.Sprintf("get %d", idx()))
		case 4:
			i := idx()
			lines = append(lines, fmt.Sprintf("rm %d", i))
			if i >= 0 && i < length {
				det = append(det, ids[i])
				ids = del(ids, ids[i])
				length--
			}
		case 5:
			lines = append(lines, "rmf")
			if length > 0 {
				det = append(det, ids[0])
				ids = del(ids, ids[0])
				length--
			}
		case 6:
			i, j := idx(), idx()
			if length > 1 && r.Chance(60) {
				i, j = r.Intn(length), r.Intn(length)
				// one valid position, the other huge (either side)
				if r.Chance(12) {
					if r.Bool() {
						i = huge()
					} else {
						j = huge()
					}
				}
			}
			lines = append(lines, fmt.Sprintf("swap %d %d", i, j))
		case 7:
			lines = append(lines, fmt.Sprintf("new %d", v))
			det = append(det, next)
			next++
		case 8, 9, 10:
			if len(det) == 0 {
				continue
			}
			e := det[r.Intn(len(det))]
			det = del(det, e)
			switch r.Intn(3) {
			case 0:
				lines = append(lines, fmt.Sprintf("pfn %d", e))
				ids = insAt(ids, 0, e)
			case 1:
				lines = append(lines, fmt.Sprintf("pbn %d", e))
				ids = append(ids, e)
			default:
				i := idx()
				lines = append(lines, fmt.Sprintf("insn %d %d", i, e))
				ids = insAt(ids, clamp(i), e)
			}
			length++
		case 13: // the caller changes a node's Value through the handle
			if next == 0 {
				continue
			}
			e := r.Intn(next)
			if length > 0 && r.Chance(70) {
				e = ids[r.Intn(length)]
			}
			lines = append(lines, fmt.Sprintf("setv %d %d", e, v))
		case 12: // range over the list while the body mutates it
			lines = append(lines, sLoopLine(r, &ids, &det, &next, nil))
			length = len(ids)
		case 11:
			switch r.Intn(5) {
			case 0:
				lines = append(lines, "len")
			case 1:
				lines = append(lines, "front")
			case 2:
				lines = append(lines, "back")
			default:
				if next == 0 {
					continue
				}
				// a live node (ends favoured) or any allocated one (possibly removed)
				e := r.Intn(next)
				if length > 0 && r.Chance(60) {
					switch r.Intn(3) {
					case 0:
						e = ids[0]
					case 1:
						e = ids[length-1]
					default:
						e = ids[r.Intn(length)]
					}
				}
				lines = append(lines, fmt.Sprintf("next %d", e))
			}
		}
	}
	return core.Case{Lines: lines, Tag: "slist"}
}
