// Package c13: DList and SList keep exact sequence semantics with stable node handles
// (listz/doubly_list.go, listz/singly_list.go, listz/iter.go).
//
// Two case kinds:
//
//	@ C13 dlist <z|n> <z|n> [big]   two DList[int] (zero value or NewDoubly), node handles = allocation order
//	@ C13 slist [z|n] [big]         one SList[int] (zero value or NewSingly)
//
// `big` = long lists: the dumps are digests (count + hash) of the complete traversals.
// Bulk lines: `pushn L k`, `removen L k`, `removebn L k` (DList), `pushn k`, `removen k`, `removeln k` (SList).
//
// After every operation both sides print the result and a full dump of the list(s):
// Len, ids front-to-back via Front/Next, ids back-to-front via Back/Prev, values via All().
package c13

import (
	"strconv"
	"strings"

	"verifharness/internal/core"
)

const walkCap = 200

func init() {
	core.Register(&core.Prop{
		ID:       "C13",
		Title:    "DList and SList keep exact sequence semantics with stable node handles",
		Quick:    16000,
		Thorough: 150000,
		Gen:      gen,
		Corpus:   corpus,
		Impl:     impl,
		Check:    check,
		NonTrivial: func(c core.Case, out []string) bool {
			// at least three operations that changed a list and one that was a no-op on purpose
			changed, noop := 0, 0
			for i := 1; i < len(out); i++ {
				if dumpOf(out[i]) != dumpOf(out[i-1]) {
					changed++
				} else if isMutator(c.Lines[i]) {
					noop++
				}
			}
			return changed >= 3 && noop >= 1
		},
		Rule:     "op sequences on two (stream `three`: three) DList[int] (all Push/Insert/Move/Remove forms, node-inserting forms with detached nodes, PushBackDList/PushFrontDList incl. onto itself; handles 60% live / 25% removed / 15% of the other list) or on one SList[int] (index ops with indices -1..len+1 and, one in eight, huge ones: ±2^31±j, ±2^32±j, ±2^33+j, MaxInt-j, MinInt+j; Len/Front/Back/Next observers incl. Next of removed nodes); plus a stream of long lists (100-20000 nodes, thorough up to 65537; bulk pushn/removen, index and handle operations at positions 0, 1, n/2, n-2, n-1, n, n+1, self-copies doubling the list, digests of the full forward/backward/All() traversals) and a stream of phased histories (the same node removed and re-inserted many times through the *Node entry points, move chains, drain - Init - reuse, fill - drain - refill of an SList; every node returned by Remove/RemoveFront re-linked at once through a *Node entry point into the same or a second SList sharing the nodes (line flip); loops allbody/walkbody = range over All() / Front-Next with a body that mutates the list at chosen iterations through handles or indices obtained before the loop); non-trivial = at least three operations changed a list and at least one mutator was a no-op (stale/foreign handle, out-of-range index, move onto itself); a stream `misuse` (oracle silent, model tie only): node forms given still-linked nodes of the same or the other list and Init on a non-empty list, followed by further calls; a third of the non-large cases run on another element type (header ty=string|float|slice|any|unit|fstruct: NaN and -0, uncomparable slices and structs, any holding mixed dynamic types incl. nil, the zero-size type); setv h v = e.Value = v through the handle between operations; distinct by hash of the op list",
		Classify: classify,
		Parallel: true,
		Assumptions: []string{
			"Go int treated as unbounded (list lengths)",
			"node-inserting forms (PushFrontNode/PushBackNode/InsertNodeBefore/InsertNodeAfter, SList *Node forms) are only given detached nodes (fresh or removed); a node still linked elsewhere is undocumented misuse and excluded",
			"Init() is only generated on an empty list (re-initialising a non-empty list orphans its nodes exactly as container/list does)",
		},
	})
}

func dumpOf(line string) string {
	if i := strings.Index(line, " | "); i >= 0 {
		return line[i:]
	}
	return ""
}

func isMutator(l string) bool {
	t := core.Toks(l)
	switch t[0] {
	case "front", "back", "next", "prev", "get", "new", "len", "flip":
		return false
	}
	return true
}

func kind(c core.Case) string {
	h := core.Toks(c.Lines[0])
	if len(h) >= 3 {
		return h[2]
	}
	return ""
}

func gen(r *core.Rand, tier string) core.Case {
	return retype(r, gen0(r, tier))
}

func gen0(r *core.Rand, tier string) core.Case {
	large := 3 // 1.5 % long lists in quick; thorough: a third of that share, with the biggest sizes
	if tier == "thorough" {
		large = 1
	}
	switch r.Pick(large, 16, 167, 6, 8) {
	case 4: // three DLists interleaved
		return genD3(r, tier)
	case 3: // outside the contract: still-linked nodes into node forms, Init on a non-empty list
		if r.Chance(60) {
			return genDMisuse(r, tier)
		}
		return genSMisuse(r, tier)
	case 0: // long lists: 1.5 % of the cases (a few hundred in quick)
		if r.Chance(55) {
			return genDLarge(r, tier)
		}
		return genSLarge(r, tier)
	case 1: // phased histories on the same objects
		if r.Chance(60) {
			return genDHistory(r, tier)
		}
		return genSHistory(r, tier)
	}
	if r.Chance(65) {
		return genD(r, tier)
	}
	return genS(r, tier)
}

func impl(c core.Case) []string {
	switch kind(c) {
	case "dlist":
		return implD(c)
	case "slist":
		return implS(c)
	}
	out := make([]string, len(c.Lines))
	for i := range out {
		out[i] = "bad-op"
	}
	return out
}

func check(c core.Case, out []string) *core.Failure {
	switch kind(c) {
	case "dlist":
		return checkD(c, out)
	case "slist":
		return checkS(c, out)
	}
	return nil
}

func classify(c core.Case, out []string) []string {
	ls := []string{kind(c), "ty:" + tyOf(c)}
	for i := 1; i < len(c.Lines) && i < len(out); i++ {
		t := core.Toks(c.Lines[i])
		if len(t) == 0 {
			continue
		}
		lab := kind(c)[:1] + ":" + t[0]
		switch {
		case out[i] == "panic":
			lab += ":panic"
		case out[i] == "bad-op" || out[i] == "dead":
			lab += ":" + out[i]
		case isMutator(c.Lines[i]) && dumpOf(out[i]) == dumpOf(out[i-1]):
			lab += ":noop"
		}
		if kind(c) == "slist" {
			// index arguments beyond 32 bits (get/rm: 1st; ins/insn: 1st; swap: both)
			nidx := map[string]int{"get": 1, "rm": 1, "ins": 1, "insn": 1, "swap": 2}[t[0]]
			for k := 1; k <= nidx && k < len(t); k++ {
				if x, err := strconv.Atoi(t[k]); err == nil && (x >= 1<<31-8 || x <= -(1<<31)+8) {
					ls = append(ls, "s:"+t[0]+":huge-index")
					break
				}
			}
		}
		if (t[0] == "pbl" || t[0] == "pfl") && len(t) == 3 && t[1] == t[2] {
			lab += ":self"
		}
		ls = append(ls, lab)
	}
	return ls
}

func corpus() []core.Case {
	return []core.Case{
		// zero-value lists: every first operation
		{Lines: []string{"@ C13 dlist z z", "front A", "back A", "pb A 1", "pf B 2", "pbl A B", "pfl B B", "rm A 2", "rm A 2", "rm B 2"}},
		{Lines: []string{"@ C13 dlist z z", "new 7", "pbn A 2", "new 8", "pfn B 3", "inb A 2 3", "mtf A 2", "rm A 2", "pbn B 2", "ma B 2 3", "mb B 2 3"}},
		{Lines: []string{"@ C13 dlist z n", "pbl A A", "pfl A B", "pbl B A", "new 1", "ina A 2 2", "rm A 2", "pb A 5", "mtb A 3", "mtf A 3"}},
		// container/list's own scenario: moves around a 4-element list, self copy
		{Lines: []string{"@ C13 dlist n n", "pb A 1", "pb A 2", "pb A 3", "pb A 4", "mtf A 5", "mtb A 2", "mb A 3 2", "ma A 2 2", "ma A 2 5", "mb A 5 2", "pbl A A", "pfl A A", "rm A 4", "next 4", "prev 4", "ib A 9 4", "ia A 9 4", "ia A 9 5", "front A", "back A"}},
		// foreign handles
		{Lines: []string{"@ C13 dlist n n", "pb A 1", "pb B 2", "rm A 3", "rm B 2", "mtf A 3", "mb A 2 3", "ib A 5 3", "ia B 6 2", "inb A 2 3", "next 3", "prev 2"}},
		// a zero-value list copied onto itself (empty, then growing), moves of a node that is already in
		// place: e right before mark (move(e, e)), e right after mark, already first / last, last before first
		{Lines: []string{"@ C13 dlist z z", "pbl A A", "pfl A A", "pb A 1", "pbl A A", "pfl A A", "len A", "mb A 5 4", "ma A 4 5", "mtb A 3", "mtf A 5", "mb A 3 5", "ma A 5 3", "mb A 4 4", "pfl B A", "pbl B B", "len B", "next 3", "prev 5", "rm A 4", "next 4", "prev 4", "rm B 4"}},
		// SList: observers at sizes 0,1; Next of a removed node is nil and the node can be pushed back again
		{Lines: []string{"@ C13 slist", "len", "front", "back", "pb 5", "front", "back", "next 0", "pb 6", "pb 7", "next 0", "rm 1", "next 1", "next 0", "pbn 1", "next 2", "next 1", "rmf", "next 0", "insn 1 0", "swap 0 2", "swap 2 0", "swap 1 1", "swap 0 3", "ins 3 8", "ins 4 9", "rm 4", "back", "len"}},
		// SList: indices that a 32-bit or unsigned range test would accept (k*2^32 + j, ±2^31, int range ends)
		{Lines: []string{"@ C13 slist", "pb 1", "pb 2", "pb 3", "get 4294967296", "get -4294967296", "get 4294967297", "get -4294967295", "get 2147483648", "get -2147483648", "get 8589934593", "get 9223372036854775807", "get -9223372036854775808", "swap 1 4294967296", "swap -4294967294 0", "swap 4294967296 4294967298", "swap 0 -9223372036854775808", "rm -4294967296", "rm 4294967297", "rm -9223372036854775807", "rm 8589934592", "ins 4294967296 7", "ins -4294967295 8", "ins -9223372036854775808 9", "ins 9223372036854775807 6", "new 5", "insn -4294967294 7", "rm 1", "insn 4294967297 1", "len"}},
		// long lists: self-copy doubling, traversals in both directions, handles at the ends and in the middle
		{Lines: []string{"@ C13 dlist z n big", "pushn A 257", "pbl A A", "pfl A A", "mtb A 2", "mtf A 258", "mb A 130 2", "rm A 129", "pbn B 129", "pbl B A", "removen A 1000", "removebn A 100", "len A", "pbl A A", "prev 258", "next 2"}, Tag: "large"},
		{Lines: []string{"@ C13 slist z big", "pushn 1025", "get 1024", "get 1025", "rm 1024", "rm 512", "rm 0", "ins 1022 5", "ins 1021 6", "swap 0 1022", "swap 511 1023", "get 1023", "removeln 1023", "back", "pushn 17", "rm 16", "back", "len"}, Tag: "large"},
		// histories: the same node through every *Node entry point, then used as a handle
		{Lines: []string{"@ C13 dlist n z", "pb A 1", "pb A 2", "pb A 3", "rm A 3", "pbn A 3", "prev 3", "next 3", "rm A 3", "pfn A 3", "next 3", "rm A 3", "inb A 3 4", "prev 4", "rm A 3", "ina B 3 2", "ina A 3 2", "mtb A 3", "rm A 3", "pbn B 3", "prev 3", "ib B 7 3", "rm B 3", "removen A 9", "init A", "pbn A 3", "pb A 4", "mtf A 4", "prev 3"}, Tag: "history"},
		{Lines: []string{"@ C13 slist n", "pb 1", "pb 2", "pb 3", "rm 2", "back", "rm 1", "back", "rm 0", "back", "len", "pbn 2", "back", "pfn 0", "insn 1 1", "back", "rmf", "rmf", "rmf", "back", "front", "pb 9", "back", "rm 0", "pbn 0", "next 0", "back"}, Tag: "history"},
		// ranging while the body mutates the list through handles obtained before the loop: remove the
		// successor / the current node / move the successor to the back / insert after the current node
		{Lines: []string{"@ C13 dlist n z", "pb A 1", "pb A 2", "pb A 3", "pb A 4", "pb A 5", "allbody A 0:rm:A:3", "allbody A 1:mtb:A:5", "allbody A 0:ia:A:9:2", "walkbody A 1:rm:A:7", "allbody A 0:rm:A:2", "pbn A 2", "walkbody A 2:break", "allbody A 1:mtf:A:5 2:mb:A:4:5", "allbody A 0:pb:A:6 1:rm:B:4", "walkbody B", "allbody B 0:rm:A:4"}, Tag: "history"},
		{Lines: []string{"@ C13 slist z", "pb 1", "pb 2", "pb 3", "pb 4", "allbody 0:rm:1", "allbody 0:rm:0", "next 0", "pbn 0", "walkbody", "allbody 1:ins:2:9 2:rmf", "walkbody 0:pb:7 1:swap:0:1 3:break", "allbody 0:rmf", "len"}, Tag: "history"},
		// a node returned by Remove(0)/RemoveFront/Remove(i) is detached: re-linked at the back of this
		// list and of the second list (flip), no cycle, no shared tail
		{Lines: []string{"@ C13 slist n", "pb 1", "pb 2", "pb 3", "rm 0", "next 0", "pbn 0", "walkbody", "rm 0", "insn 5 1", "len", "back", "rm 0", "flip", "pbn 2", "next 2", "len", "flip", "len", "back", "rmf", "flip", "insn 1 0", "walkbody", "flip", "walkbody", "rm 0", "pfn 1", "next 1"}, Tag: "history"},
		// loop bodies calling the API on the OTHER list of the family; the current node moved into the
		// other list inside the loop (the loop goes on there)
		{Lines: []string{"@ C13 slist z", "pb 1", "pb 2", "pb 3", "flip", "pb 8", "pb 9", "flip", "allbody 0:o.rmf 1:o.pb:7", "walkbody 0:rm:0 0:o.pfn:0", "flip", "walkbody", "flip", "allbody 1:rm:1 1:o.pbn:2 2:break", "flip", "len", "back", "allbody 0:o.pb:5 1:o.rm:0"}, Tag: "history"},
		{Lines: []string{"@ C13 dlist z n", "pb A 1", "pb A 2", "pb A 3", "pb B 8", "pb B 9", "allbody A 0:mtf:B:6 1:rm:B:5", "walkbody A 0:pb:B:4 1:ib:B:7:6 2:rm:A:3", "allbody B 0:rm:A:2 1:pb:A:0", "len A", "len B"}, Tag: "history"},
		// element types: uncomparable / non-reflexive values swapped, copied, removed, set through the handle
		{Lines: []string{"@ C13 slist z ty=slice", "pb 1", "pb 1", "pb 2", "swap 0 1", "swap 0 2", "swap 2 2", "setv 0 5", "swap 0 1", "rm 1", "pbn 1", "allbody 0:swap:0:1"}},
		{Lines: []string{"@ C13 slist n ty=any", "pb 2", "pb 8", "pb 4", "pb 4", "pb 9", "pb 9", "pb 5", "pb 5", "pb 1", "swap 0 1", "swap 2 3", "swap 4 5", "swap 6 7", "swap 0 8", "setv 0 2", "swap 0 1", "walkbody"}},
		{Lines: []string{"@ C13 slist z ty=float", "pb 7", "pb 7", "pb 8", "pb 0", "swap 0 1", "swap 2 3", "swap 1 2", "get 1", "rmf", "rm 2"}},
		{Lines: []string{"@ C13 slist z ty=unit", "pb 0", "pb 0", "pf 0", "swap 0 2", "rm 1", "ins 1 0", "len", "allbody"}},
		{Lines: []string{"@ C13 dlist z n ty=any", "pb A 2", "pb A 8", "pb A 4", "pb A 9", "pb A 5", "pbl A A", "pfl B A", "rm A 3", "rm A 4", "setv 2 4", "mtb A 2", "pbl B A", "allbody A 0:setv:5:2", "rm B 12"}},
		{Lines: []string{"@ C13 dlist n n ty=fstruct", "pb A 7", "pb A 7", "pb B 8", "pfl B A", "rm A 2", "rm B 5", "ia A 7 3", "allbody B"}},
		// values changed behind the list's back between operations: nothing but All()/Remove's result depends on them
		{Lines: []string{"@ C13 dlist z z", "pb A 1", "pb A 2", "pb A 3", "setv 3 9", "mtf A 3", "setv 3 1", "rm A 3", "setv 3 7", "pbn B 3", "setv 2 2", "mb A 4 2", "pbl B A", "new 4", "setv 7 6", "pfn A 7"}},
		// outside the contract (oracle silent, model tie only): still-linked nodes into the node forms
		{Lines: []string{"@ C13 dlist n n", "pb A 1", "pb A 2", "pb A 3", "pb B 4", "pbn A 3", "next 3", "prev 4", "len A", "pfn B 2", "next 2", "prev 3", "len A", "len B", "rm A 2", "rm B 2", "ina A 4 2", "init B", "rm B 5", "len B"}, Tag: "misuse"},
		{Lines: []string{"@ C13 dlist z z", "pb A 1", "pb A 2", "pbn A 3", "next 3", "pfn A 2", "prev 2", "mtf A 3", "rm A 2", "len A"}, Tag: "misuse"},
		{Lines: []string{"@ C13 slist z", "pb 1", "pb 2", "pb 3", "pfn 1", "next 1", "len", "rm 0", "get 2", "pbn 0", "next 2", "back", "flip", "pbn 2", "len", "next 2", "flip", "rmf", "swap 0 1"}, Tag: "misuse"},
		// three lists: foreign handles of either other list, a node travelling A -> B -> C, copies across
		{Lines: []string{"@ C13 dlist z n z", "pb A 1", "pb B 2", "pb C 3", "rm A 4", "rm B 5", "mb C 5 4", "ia A 7 5", "rm A 3", "pbn B 3", "rm B 3", "pfn C 3", "prev 5", "pbl A C", "pfl C C", "pbl B A", "len A", "len B", "len C", "inb C 4 3", "rm C 9", "next 3"}, Tag: "three"},
		// SList: head/tail bookkeeping at sizes 0,1,2
		{Lines: []string{"@ C13 slist", "rmf", "rm 0", "get 0", "pb 1", "rm 0", "pf 2", "rmf", "ins 5 3", "ins -1 4", "ins 1 5", "rm 2", "rm 1", "rm 0", "swap 0 0"}},
		{Lines: []string{"@ C13 slist", "pb 1", "pb 2", "pb 3", "swap 0 2", "swap 2 1", "swap 1 3", "swap -1 0", "rm 2", "pb 4", "rm 0", "pf 5", "get 2", "get 3", "get -1", "new 9", "insn 1 5", "rm 1", "pbn 5", "rm 3", "pfn 5"}},
	}
}
